//! vshuttle: real-thread interleavings of the lock sections that C12 and C14 rest
//! on, explored under shuttle's seeded random and PCT schedulers. The sources
//! under test are /repo's monotonic_counter.rs and rate_limit.rs, transformed at
//! build time (build.rs) so that their locks are shuttle's.
//!
//! usage: vshuttle check <C12|C14> [--tier quick|thorough]
//!        vshuttle replay <file.json>

#![allow(dead_code, unused_imports, clippy::all)]

pub use saorsa_core::{P2PError, Result, error, peer_record, verif_hooks};

pub mod shim {
    /// parking_lot-style RwLock (guards returned directly) over shuttle's RwLock.
    #[derive(Debug)]
    pub struct PlRwLock<T>(shuttle::sync::RwLock<T>);
    impl<T> PlRwLock<T> {
        pub fn new(t: T) -> Self {
            PlRwLock(shuttle::sync::RwLock::new(t))
        }
        pub fn write(&self) -> shuttle::sync::RwLockWriteGuard<'_, T> {
            self.0.write().unwrap_or_else(|e| e.into_inner())
        }
        pub fn read(&self) -> shuttle::sync::RwLockReadGuard<'_, T> {
            self.0.read().unwrap_or_else(|e| e.into_inner())
        }
    }
}

pub mod monotonic_counter {
    include!(concat!(env!("OUT_DIR"), "/monotonic_counter.rs"));
}
pub mod rate_limit {
    include!(concat!(env!("OUT_DIR"), "/rate_limit.rs"));
}

use serde::{Deserialize, Serialize};
use serde_json::json;
use shuttle::scheduler::{PctScheduler, RandomScheduler};
use shuttle::{Config, FailurePersistence, Runner};
use std::future::Future;
use std::path::PathBuf;
use std::pin::Pin;
use std::sync::atomic::{AtomicU64, Ordering};
use std::task::{Context, Poll, RawWaker, RawWakerVTable, Waker};

fn noop_waker() -> Waker {
    fn clone(_: *const ()) -> RawWaker {
        RawWaker::new(std::ptr::null(), &VTABLE)
    }
    fn noop(_: *const ()) {}
    static VTABLE: RawWakerVTable = RawWakerVTable::new(clone, noop, noop, noop);
    unsafe { Waker::from_raw(RawWaker::new(std::ptr::null(), &VTABLE)) }
}

/// Drive a future on a shuttle thread without any runtime: the futures under test
/// only await an uncontended async mutex after their (synchronous) lock section.
fn drive<F: Future>(fut: F) -> F::Output {
    let mut fut = Box::pin(fut);
    let w = noop_waker();
    let mut cx = Context::from_waker(&w);
    loop {
        match Pin::new(&mut fut).as_mut().poll(&mut cx) {
            Poll::Ready(v) => return v,
            Poll::Pending => shuttle::thread::yield_now(),
        }
    }
}

#[derive(Serialize, Deserialize, Clone, Debug)]
struct Scenario {
    property: String,
    /// which workload
    name: String,
    threads: usize,
    /// per-thread submissions: (peer, seq) for C12; key index for C14
    work: Vec<Vec<(u64, u64)>>,
    burst: u32,
    max: u32,
}

fn uid(p: u64) -> peer_record::UserId {
    let mut h = [0x22u8; 32];
    h[0] = p as u8;
    peer_record::UserId::from_bytes(h)
}

/// C12: concurrent submitters; at most one acceptance per (peer, number), acceptances in order.
fn c12_body(sc: &Scenario) {
    use monotonic_counter::{MonotonicCounterSystem, SequenceValidationResult as R};
    // empty path: no parent directory, no existing file => no tokio::fs call at all
    let sys = drive(MonotonicCounterSystem::new(PathBuf::new())).expect("new");
    let sys = std::sync::Arc::new(sys);
    // a peer that is not on its first-ever submission (prefix accepted sequentially)
    for p in 0..2u64 {
        let r = drive(sys.validate_sequence(&uid(p), 1, [1u8; 32])).expect("validate");
        assert_eq!(r, R::Valid, "setup");
    }
    let accepted: std::sync::Arc<std::sync::Mutex<Vec<(u64, u64)>>> = std::sync::Arc::new(std::sync::Mutex::new(Vec::new()));
    let mut hs = Vec::new();
    for t in 0..sc.threads {
        let sys = sys.clone();
        let acc = accepted.clone();
        let mine = sc.work[t].clone();
        hs.push(shuttle::thread::spawn(move || {
            for (peer, seq) in mine {
                let r = drive(sys.validate_sequence(&uid(peer), seq, [t as u8 + 7; 32])).expect("validate");
                if r == R::Valid {
                    acc.lock().unwrap().push((peer, seq));
                }
            }
        }));
    }
    for h in hs {
        h.join().unwrap();
    }
    let acc = accepted.lock().unwrap().clone();
    for p in 0..2u64 {
        let mut mine: Vec<u64> = acc.iter().filter(|(pp, _)| *pp == p).map(|(_, s)| *s).collect();
        let n = mine.len();
        mine.sort();
        mine.dedup();
        assert_eq!(mine.len(), n, "C12.concurrent.accepted_twice: peer {p} accepted a number more than once: {acc:?}");
        let expect: Vec<u64> = (2..2 + n as u64).collect();
        assert_eq!(mine, expect, "C12.concurrent.not_in_order: peer {p} accepted {mine:?}");
        let last = drive(sys.get_peer_counter(&uid(p))).map(|c| c.last_valid_sequence).unwrap_or(0);
        assert_eq!(last, 1 + n as u64, "C12.concurrent.counter_differs: peer {p} counter {last} after {n} acceptances");
    }
}

/// C14: concurrent first attempts on fresh and tracked keys; admitted <= burst per key (no clock movement).
fn c14_body(sc: &Scenario) {
    use rate_limit::{Engine, EngineConfig};
    let eng = std::sync::Arc::new(Engine::<String>::new(EngineConfig {
        window: std::time::Duration::from_secs(3600),
        max_requests: sc.max,
        burst_size: sc.burst,
    }));
    let admitted: std::sync::Arc<Vec<AtomicU64>> = std::sync::Arc::new((0..4).map(|_| AtomicU64::new(0)).collect());
    let global_admitted = std::sync::Arc::new(AtomicU64::new(0));
    let mut hs = Vec::new();
    for t in 0..sc.threads {
        let eng = eng.clone();
        let adm = admitted.clone();
        let ga = global_admitted.clone();
        let mine = sc.work[t].clone();
        hs.push(shuttle::thread::spawn(move || {
            for (key, kind) in mine {
                if kind == 1 {
                    if eng.try_consume_global() {
                        ga.fetch_add(1, Ordering::SeqCst);
                    }
                } else if eng.try_consume_key(&format!("k{key}")) {
                    adm[key as usize % 4].fetch_add(1, Ordering::SeqCst);
                }
            }
        }));
    }
    for h in hs {
        h.join().unwrap();
    }
    let cap = sc.burst.min(sc.max) as u64;
    for (k, a) in admitted.iter().enumerate() {
        let a = a.load(Ordering::SeqCst);
        assert!(a <= cap, "C14.concurrent.key_budget_exceeded: key k{k} admitted {a} > min(burst {}, max {}) within one instant", sc.burst, sc.max);
    }
    let g = global_admitted.load(Ordering::SeqCst);
    assert!(g <= cap, "C14.concurrent.global_budget_exceeded: global admitted {g} > {cap}");
}

fn scenarios(id: &str, n: u64, seed: u64) -> Vec<Scenario> {
    // tiny deterministic generator (splitmix)
    let mut x = seed ^ 0x5155_7474_6c65;
    let mut next = move || {
        x = x.wrapping_add(0x9E37_79B9_7F4A_7C15);
        let mut z = x;
        z = (z ^ (z >> 30)).wrapping_mul(0xBF58_476D_1CE4_E5B9);
        z = (z ^ (z >> 27)).wrapping_mul(0x94D0_49BB_1331_11EB);
        z ^ (z >> 31)
    };
    let mut out = Vec::new();
    for i in 0..n {
        let threads = 2 + (next() % 3) as usize;
        if id == "C12" {
            // everyone races for the same next numbers of the same peers
            let len = 1 + (next() % 3) as usize;
            let work = (0..threads)
                .map(|_| (0..len).map(|j| (next() % 2, 2 + j as u64 + (next() % 2))).collect())
                .collect();
            out.push(Scenario { property: "C12".into(), name: format!("race-{i}"), threads, work, burst: 0, max: 0 });
        } else {
            let len = 1 + (next() % 3) as usize;
            let work = (0..threads).map(|_| (0..len).map(|_| (next() % 2, (next() % 5 == 0) as u64)).collect()).collect();
            let burst = 1 + (next() % 3) as u32;
            let max = burst + (next() % 2) as u32;
            out.push(Scenario { property: "C14".into(), name: format!("fresh-keys-{i}"), threads, work, burst, max });
        }
    }
    out
}

fn body(sc: &Scenario) {
    // the simulated wall clock is thread-local state of the one OS thread shuttle runs on
    verif_hooks::set_wall_secs(1_700_000_000);
    if sc.property == "C12" { c12_body(sc) } else { c14_body(sc) }
}

#[derive(Serialize, Deserialize)]
struct Replay {
    property: String,
    class: String,
    detail: String,
    scheduler: String,
    scenario: Scenario,
    /// shuttle's own schedule encoding
    schedule: String,
}

fn arg_val(args: &[String], name: &str) -> Option<String> {
    args.iter().position(|a| a == name).and_then(|i| args.get(i + 1).cloned())
}

fn sched_dir() -> PathBuf {
    let d = PathBuf::from(format!("/dev/shm/vshuttle-{}", std::process::id()));
    let _ = std::fs::create_dir_all(&d);
    d
}

fn run_one(sc: &Scenario, scheduler: &str, seed: u64, iterations: usize) -> Option<(String, String)> {
    let sc2 = sc.clone();
    // shuttle's panic hook keeps the first Config it sees, so one directory serves the process
    let dir = sched_dir();
    if let Ok(rd) = std::fs::read_dir(&dir) {
        for e in rd.flatten() {
            let _ = std::fs::remove_file(e.path());
        }
    }
    let mut cfg = Config::new();
    cfg.failure_persistence = FailurePersistence::File(Some(dir.clone()));
    let result = std::panic::catch_unwind(std::panic::AssertUnwindSafe(|| {
        if scheduler == "pct" {
            Runner::new(PctScheduler::new_from_seed(seed, 3, iterations), cfg).run(move || body(&sc2));
        } else {
            Runner::new(RandomScheduler::new_from_seed(seed, iterations), cfg).run(move || body(&sc2));
        }
    }));
    match result {
        Ok(()) => None,
        Err(p) => {
            let msg = if let Some(s) = p.downcast_ref::<String>() { s.clone() } else if let Some(s) = p.downcast_ref::<&str>() { s.to_string() } else { "panic".into() };
            let schedule = std::fs::read_to_string(dir.join("schedule000.txt")).unwrap_or_default();
            Some((msg, schedule))
        }
    }
}

fn extract_schedule(msg: &str) -> Option<String> {
    // message format: "...\n\"<hex schedule>\"\n..." (shuttle prints the schedule between quotes)
    let start = msg.find("failing schedule:")?;
    let rest = &msg[start..];
    let q1 = rest.find('"')?;
    let q2 = rest[q1 + 1..].find('"')?;
    Some(rest[q1 + 1..q1 + 1 + q2].to_string())
}

fn class_of(msg: &str) -> String {
    for c in ["C12.concurrent.accepted_twice", "C12.concurrent.not_in_order", "C12.concurrent.counter_differs", "C14.concurrent.key_budget_exceeded", "C14.concurrent.global_budget_exceeded"] {
        if msg.contains(c) {
            return c.to_string();
        }
    }
    "panic".to_string()
}

fn main() {
    // stderr of shuttle's failure hook is noise here; results are printed on stdout
    unsafe {
        let devnull = libc_open_devnull();
        if devnull >= 0 && std::env::var("VSHUTTLE_VERBOSE").is_err() {
            dup2(devnull, 2);
        }
    }
    std::panic::set_hook(Box::new(|_| {}));
    let args: Vec<String> = std::env::args().collect();
    let root = PathBuf::from(std::env::var("VERIF_ROOT").unwrap_or_else(|_| "/verif".into()));
    let seed: u64 = std::env::var("VERIF_SEED").ok().and_then(|s| s.parse().ok()).unwrap_or(1);
    match args.get(1).map(|s| s.as_str()) {
        Some("check") => {
            let id = args.get(2).cloned().unwrap_or_default();
            let tier = arg_val(&args, "--tier").unwrap_or_else(|| "quick".into());
            let (n_sc, iters) = if tier == "thorough" { (2000u64, 3000usize) } else { (200u64, 500usize) };
            let t0 = std::time::Instant::now();
            let scs = scenarios(&id, n_sc, seed);
            let mut executions = 0u64;
            let mut violations = Vec::new();
            for (i, sc) in scs.iter().enumerate() {
                for sched in ["random", "pct"] {
                    let s = seed.wrapping_mul(1000).wrapping_add(i as u64);
                    executions += iters as u64;
                    if let Some((msg, schedule)) = run_one(sc, sched, s, iters) {
                        let class = class_of(&msg);
                        if violations.iter().any(|(c, _): &(String, PathBuf)| *c == class) {
                            continue;
                        }
                        let rp = Replay { property: id.clone(), class: class.clone(), detail: msg.lines().find(|l| l.contains(&class)).unwrap_or("").to_string(), scheduler: sched.into(), scenario: sc.clone(), schedule };
                        let _ = std::fs::create_dir_all(root.join("replays"));
                        let path = root.join("replays").join(format!("{id}-shuttle-{}-{}.json", class.replace('.', "_"), s));
                        let _ = std::fs::write(&path, serde_json::to_string_pretty(&rp).unwrap());
                        // confirm by replaying the recorded schedule
                        let ok = replay_file(&path);
                        if ok {
                            println!("violation class={class} detail={}", rp.detail);
                            println!("VIOLATION property={id} replay={}", path.display());
                            violations.push((class, path));
                        } else {
                            eprintln!("HARNESS-ERROR: shuttle failure did not replay from its schedule");
                            std::process::exit(2);
                        }
                    }
                }
            }
            // amend the evidence file written by vsim for this property
            let evp = root.join("evidence").join(format!("{id}.json"));
            if let Ok(s) = std::fs::read_to_string(&evp) {
                if let Ok(mut v) = serde_json::from_str::<serde_json::Value>(&s) {
                    v["coverage"]["shuttle"] = json!({
                        "what": "real-thread interleavings of the lock sections (sources transformed at build time to shuttle's primitives)",
                        "scenarios": scs.len(), "schedulers": ["random", "pct(depth 3)"], "schedules_explored": executions,
                        "violations": violations.len(), "wall_s": t0.elapsed().as_secs_f64(),
                        "sample": scs.first()
                    });
                    if let Some(n) = v["violations"].as_i64() { v["violations"] = json!(n + violations.len() as i64); }
                    let _ = std::fs::write(&evp, serde_json::to_string_pretty(&v).unwrap());
                }
            }
            println!("property={id} shuttle scenarios={} schedules={} violations={} wall={:.1}s", scs.len(), executions, violations.len(), t0.elapsed().as_secs_f64());
            std::process::exit(if violations.is_empty() { 0 } else { 1 });
        }
        Some("replay") => {
            let path = PathBuf::from(args.get(2).cloned().unwrap_or_default());
            if replay_file(&path) {
                let rp: Replay = serde_json::from_str(&std::fs::read_to_string(&path).unwrap()).unwrap();
                println!("REPLAY reproduced class={}", rp.class);
                println!("VIOLATION property={} replay={}", rp.property, path.display());
                std::process::exit(1);
            }
            println!("REPLAY not reproduced");
            std::process::exit(0);
        }
        _ => {
            eprintln!("usage: vshuttle check <C12|C14> [--tier quick|thorough] | vshuttle replay <file>");
            std::process::exit(2);
        }
    }
}

unsafe extern "C" {
    fn open(path: *const std::ffi::c_char, flags: i32, ...) -> i32;
    fn dup2(a: i32, b: i32) -> i32;
}
unsafe fn libc_open_devnull() -> i32 {
    unsafe { open(c"/dev/null".as_ptr(), 1) }
}

fn replay_file(path: &std::path::Path) -> bool {
    let Ok(s) = std::fs::read_to_string(path) else { return false };
    let Ok(rp) = serde_json::from_str::<Replay>(&s) else { return false };
    if rp.schedule.is_empty() {
        return false;
    }
    let sc = rp.scenario.clone();
    let sched = rp.schedule.clone();
    let r = std::panic::catch_unwind(std::panic::AssertUnwindSafe(|| {
        shuttle::replay(move || body(&sc), &sched);
    }));
    match r {
        Ok(()) => false,
        Err(p) => {
            let msg = if let Some(s) = p.downcast_ref::<String>() { s.clone() } else if let Some(s) = p.downcast_ref::<&str>() { s.to_string() } else { String::new() };
            msg.contains(&rp.class)
        }
    }
}
