//! Source-to-source seam for real-thread interleavings: copies two files of the
//! crate under test from /repo's working tree into OUT_DIR with their lock
//! imports redirected to shuttle's controlled primitives. Nothing in /repo is
//! edited. Every substitution must match, otherwise the build fails loudly.

use std::path::Path;

fn transform(src: &Path, dst: &Path, subs: &[(&str, &str)]) {
    println!("cargo:rerun-if-changed={}", src.display());
    let mut text = std::fs::read_to_string(src).unwrap_or_else(|e| panic!("read {}: {e}", src.display()));
    for (from, to) in subs {
        assert!(text.contains(from), "vshuttle transform: pattern `{from}` not found in {}", src.display());
        text = text.replace(from, to);
    }
    // inner attributes are not allowed in an include!d module body
    // (neither are inner doc comments); `#[cfg(test)] mod tests` is cut off as well
    let text = match text.find("#[cfg(test)]\nmod tests") {
        Some(i) => text[..i].to_string(),
        None => text,
    };
    let text: String = text
        .lines()
        .filter(|l| !l.trim_start().starts_with("#![") && !l.trim_start().starts_with("//!"))
        .collect::<Vec<_>>()
        .join("\n");
    std::fs::write(dst, text).expect("write transformed source");
}

fn main() {
    let out = std::env::var("OUT_DIR").expect("OUT_DIR");
    let out = Path::new(&out);
    let repo = std::env::var("VERIF_REPO").unwrap_or_else(|_| "/repo".to_string());
    let repo = Path::new(&repo);
    transform(
        &repo.join("src/monotonic_counter.rs"),
        &out.join("monotonic_counter.rs"),
        &[("use std::sync::{Arc, RwLock};", "use shuttle::sync::{Arc, RwLock};")],
    );
    transform(
        &repo.join("src/rate_limit.rs"),
        &out.join("rate_limit.rs"),
        &[
            ("use parking_lot::RwLock;", "use crate::shim::PlRwLock as RwLock;"),
            ("use std::sync::{Arc, Mutex};", "use shuttle::sync::{Arc, Mutex};"),
        ],
    );
}
