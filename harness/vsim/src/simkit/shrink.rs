//! Delta-debugging helpers over plain-data (JSON) scenarios.

use super::{CheckDef, RunReport, Violation};
use serde_json::Value;

/// Candidates obtained by removing chunks (halves, quarters, …, single items) of
/// the array at top-level key `key`.
pub fn drop_chunks(sc: &Value, key: &str) -> Vec<Value> {
    let mut out = Vec::new();
    let Some(arr) = sc.get(key).and_then(|v| v.as_array()) else {
        return out;
    };
    let n = arr.len();
    if n == 0 {
        return out;
    }
    let mut chunk = n.div_ceil(2);
    loop {
        let mut start = 0;
        while start < n {
            let end = (start + chunk).min(n);
            let mut v: Vec<Value> = Vec::with_capacity(n - (end - start));
            v.extend_from_slice(&arr[..start]);
            v.extend_from_slice(&arr[end..]);
            let mut c = sc.clone();
            c[key] = Value::Array(v);
            out.push(c);
            start = end;
        }
        if chunk == 1 {
            break;
        }
        chunk = chunk.div_ceil(2);
        if out.len() > 400 {
            break;
        }
    }
    out
}

/// Candidates replacing a numeric top-level field by smaller values.
pub fn shrink_num(sc: &Value, key: &str, floor: u64) -> Vec<Value> {
    let mut out = Vec::new();
    if let Some(n) = sc.get(key).and_then(|v| v.as_u64()) {
        let mut tried = std::collections::BTreeSet::new();
        for cand in [floor, n / 2, n.saturating_sub(1)] {
            if cand < n && cand >= floor && tried.insert(cand) {
                let mut c = sc.clone();
                c[key] = Value::from(cand);
                out.push(c);
            }
        }
    }
    out
}

pub fn same_class(r: &RunReport, target: &Violation) -> Option<Violation> {
    r.violations
        .iter()
        .find(|v| v.class == target.class && v.key == target.key)
        .cloned()
}

/// Greedy minimisation: accept any candidate that reproduces the same (class, key).
pub fn minimise(
    def: &'static CheckDef,
    sc: &Value,
    target: &Violation,
    budget: usize,
) -> (Value, RunReport, usize) {
    let mut best = sc.clone();
    let mut best_report = super::execute_isolated(def, &best);
    let mut used = 1usize;
    if same_class(&best_report, target).is_none() {
        return (best, best_report, used);
    }
    'outer: loop {
        let cands = (def.shrink)(&best);
        for c in cands {
            if used >= budget {
                break 'outer;
            }
            if c == best {
                continue;
            }
            let r = super::execute_isolated(def, &c);
            used += 1;
            if same_class(&r, target).is_some() {
                best = c;
                best_report = r;
                continue 'outer;
            }
        }
        break;
    }
    (best, best_report, used)
}
