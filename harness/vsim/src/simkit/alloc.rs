//! Counting allocator: per-thread live bytes and peak, for the "bounded memory" clauses.

use std::alloc::{GlobalAlloc, Layout, System};
use std::cell::Cell;

thread_local! {
    static CUR: Cell<i64> = const { Cell::new(0) };
    static PEAK: Cell<i64> = const { Cell::new(0) };
    static TOTAL: Cell<u64> = const { Cell::new(0) };
    static BIGGEST: Cell<u64> = const { Cell::new(0) };
}

pub struct Counting;

#[inline]
fn add(n: usize) {
    let _ = CUR.try_with(|c| {
        let v = c.get() + n as i64;
        c.set(v);
        let _ = PEAK.try_with(|p| {
            if v > p.get() {
                p.set(v)
            }
        });
    });
    let _ = TOTAL.try_with(|t| t.set(t.get() + n as u64));
    let _ = BIGGEST.try_with(|b| {
        if n as u64 > b.get() {
            b.set(n as u64)
        }
    });
}
#[inline]
fn sub(n: usize) {
    let _ = CUR.try_with(|c| c.set(c.get() - n as i64));
}

unsafe impl GlobalAlloc for Counting {
    unsafe fn alloc(&self, l: Layout) -> *mut u8 {
        let p = unsafe { System.alloc(l) };
        if !p.is_null() {
            add(l.size());
        }
        p
    }
    unsafe fn alloc_zeroed(&self, l: Layout) -> *mut u8 {
        let p = unsafe { System.alloc_zeroed(l) };
        if !p.is_null() {
            add(l.size());
        }
        p
    }
    unsafe fn dealloc(&self, p: *mut u8, l: Layout) {
        unsafe { System.dealloc(p, l) };
        sub(l.size());
    }
    unsafe fn realloc(&self, p: *mut u8, l: Layout, new: usize) -> *mut u8 {
        let q = unsafe { System.realloc(p, l, new) };
        if !q.is_null() {
            sub(l.size());
            add(new);
        }
        q
    }
}

/// Start a measurement window on this thread: peak := current, biggest := 0.
pub struct Window {
    start_cur: i64,
    start_total: u64,
}
pub fn window() -> Window {
    let cur = CUR.with(|c| c.get());
    PEAK.with(|p| p.set(cur));
    BIGGEST.with(|b| b.set(0));
    Window {
        start_cur: cur,
        start_total: TOTAL.with(|t| t.get()),
    }
}
impl Window {
    /// Peak live bytes above the level at window start.
    pub fn peak_growth(&self) -> u64 {
        (PEAK.with(|p| p.get()) - self.start_cur).max(0) as u64
    }
    /// Bytes allocated in total since window start.
    pub fn allocated(&self) -> u64 {
        TOTAL.with(|t| t.get()) - self.start_total
    }
    pub fn biggest(&self) -> u64 {
        BIGGEST.with(|b| b.get())
    }
}
