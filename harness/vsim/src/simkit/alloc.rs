//! Counting allocator: per-thread live bytes and peak, for the "bounded memory" clauses.

use std::alloc::{GlobalAlloc, Layout, System};
use std::cell::Cell;

thread_local! {
    static CUR: Cell<i64> = const { Cell::new(0) };
    static PEAK: Cell<i64> = const { Cell::new(0) };
    static TOTAL: Cell<u64> = const { Cell::new(0) };
    static BIGGEST: Cell<u64> = const { Cell::new(0) };
    /// Largest single request allowed on this thread (0 = unlimited). A larger
    /// request is refused (null), which makes Rust abort the process; the driver
    /// attributes the abort to the run in flight.
    static CAP: Cell<usize> = const { Cell::new(0) };
}

pub fn set_thread_cap(bytes: usize) {
    let _ = CAP.try_with(|c| c.set(bytes));
}

#[inline]
fn over_cap(n: usize) -> bool {
    let cap = CAP.try_with(|c| c.get()).unwrap_or(0);
    if cap != 0 && n > cap {
        // no allocation here: fixed buffer, raw write
        let mut buf = [0u8; 64];
        let prefix = b"VSIM-ALLOC-CAP bytes=";
        buf[..prefix.len()].copy_from_slice(prefix);
        let mut i = prefix.len();
        let mut digits = [0u8; 24];
        let mut d = 0;
        let mut v = n;
        if v == 0 { digits[0] = b'0'; d = 1; }
        while v > 0 { digits[d] = b'0' + (v % 10) as u8; v /= 10; d += 1; }
        while d > 0 { d -= 1; buf[i] = digits[d]; i += 1; }
        buf[i] = b'\n';
        i += 1;
        unsafe { libc::write(2, buf.as_ptr() as *const libc::c_void, i); }
        return true;
    }
    false
}

pub struct Counting;

#[inline]
fn add(n: usize) {
    let _ = CUR.try_with(|c| {
        let v = c.get() + n as i64;
        c.set(v);
        let _ = PEAK.try_with(|p| {
            if v > p.get() {
                p.set(v)
            }
        });
    });
    let _ = TOTAL.try_with(|t| t.set(t.get() + n as u64));
    let _ = BIGGEST.try_with(|b| {
        if n as u64 > b.get() {
            b.set(n as u64)
        }
    });
}
#[inline]
fn sub(n: usize) {
    let _ = CUR.try_with(|c| c.set(c.get() - n as i64));
}

unsafe impl GlobalAlloc for Counting {
    unsafe fn alloc(&self, l: Layout) -> *mut u8 {
        if over_cap(l.size()) {
            return std::ptr::null_mut();
        }
        let p = unsafe { System.alloc(l) };
        if !p.is_null() {
            add(l.size());
        }
        p
    }
    unsafe fn alloc_zeroed(&self, l: Layout) -> *mut u8 {
        if over_cap(l.size()) {
            return std::ptr::null_mut();
        }
        let p = unsafe { System.alloc_zeroed(l) };
        if !p.is_null() {
            add(l.size());
        }
        p
    }
    unsafe fn dealloc(&self, p: *mut u8, l: Layout) {
        unsafe { System.dealloc(p, l) };
        sub(l.size());
    }
    unsafe fn realloc(&self, p: *mut u8, l: Layout, new: usize) -> *mut u8 {
        if over_cap(new) {
            return std::ptr::null_mut();
        }
        let q = unsafe { System.realloc(p, l, new) };
        if !q.is_null() {
            sub(l.size());
            add(new);
        }
        q
    }
}

/// Live bytes allocated by this thread and not yet freed.
pub fn live() -> i64 {
    CUR.with(|c| c.get())
}

/// Start a measurement window on this thread: peak := current, biggest := 0.
pub struct Window {
    start_cur: i64,
    start_total: u64,
}
pub fn window() -> Window {
    let cur = CUR.with(|c| c.get());
    PEAK.with(|p| p.set(cur));
    BIGGEST.with(|b| b.set(0));
    Window {
        start_cur: cur,
        start_total: TOTAL.with(|t| t.get()),
    }
}
impl Window {
    /// Peak live bytes above the level at window start.
    pub fn peak_growth(&self) -> u64 {
        (PEAK.with(|p| p.get()) - self.start_cur).max(0) as u64
    }
    /// Bytes allocated in total since window start.
    pub fn allocated(&self) -> u64 {
        TOTAL.with(|t| t.get()) - self.start_total
    }
    pub fn biggest(&self) -> u64 {
        BIGGEST.with(|b| b.get())
    }
}
