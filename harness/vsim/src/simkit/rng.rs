//! Seeded PRNG: SplitMix64 seeding + xoshiro256**. One integer decides a run.

#[derive(Clone, Debug)]
pub struct Rng {
    s: [u64; 4],
}

pub fn splitmix(x: &mut u64) -> u64 {
    *x = x.wrapping_add(0x9E37_79B9_7F4A_7C15);
    let mut z = *x;
    z = (z ^ (z >> 30)).wrapping_mul(0xBF58_476D_1CE4_E5B9);
    z = (z ^ (z >> 27)).wrapping_mul(0x94D0_49BB_1331_11EB);
    z ^ (z >> 31)
}

/// Stateless mix of several integers (used for per-run seeds and per-message latency).
pub fn mix(parts: &[u64]) -> u64 {
    let mut acc = 0x243F_6A88_85A3_08D3u64;
    for p in parts {
        acc ^= *p;
        let mut x = acc;
        acc = splitmix(&mut x);
    }
    acc
}

pub fn str_hash(s: &str) -> u64 {
    let h = blake3::hash(s.as_bytes());
    let b = h.as_bytes();
    u64::from_le_bytes([b[0], b[1], b[2], b[3], b[4], b[5], b[6], b[7]])
}

impl Rng {
    pub fn new(seed: u64) -> Self {
        let mut x = seed;
        let s = [
            splitmix(&mut x),
            splitmix(&mut x),
            splitmix(&mut x),
            splitmix(&mut x),
        ];
        Rng { s }
    }
    pub fn next_u64(&mut self) -> u64 {
        let result = self.s[1].wrapping_mul(5).rotate_left(7).wrapping_mul(9);
        let t = self.s[1] << 17;
        self.s[2] ^= self.s[0];
        self.s[3] ^= self.s[1];
        self.s[1] ^= self.s[2];
        self.s[0] ^= self.s[3];
        self.s[2] ^= t;
        self.s[3] = self.s[3].rotate_left(45);
        result
    }
    /// Uniform in 0..n (n > 0).
    pub fn below(&mut self, n: u64) -> u64 {
        if n <= 1 {
            return 0;
        }
        // multiply-shift; bias negligible for our n
        ((self.next_u64() as u128 * n as u128) >> 64) as u64
    }
    pub fn usize_below(&mut self, n: usize) -> usize {
        self.below(n as u64) as usize
    }
    /// Uniform in lo..=hi.
    pub fn range(&mut self, lo: u64, hi: u64) -> u64 {
        if hi <= lo {
            return lo;
        }
        lo + self.below(hi - lo + 1)
    }
    pub fn chance(&mut self, num: u64, den: u64) -> bool {
        self.below(den) < num
    }
    pub fn f64(&mut self) -> f64 {
        (self.next_u64() >> 11) as f64 / (1u64 << 53) as f64
    }
    pub fn pick<'a, T>(&mut self, xs: &'a [T]) -> &'a T {
        &xs[self.usize_below(xs.len())]
    }
    pub fn bytes(&mut self, n: usize) -> Vec<u8> {
        let mut v = Vec::with_capacity(n);
        while v.len() < n {
            let w = self.next_u64().to_le_bytes();
            let take = (n - v.len()).min(8);
            v.extend_from_slice(&w[..take]);
        }
        v
    }
    pub fn fill(&mut self, buf: &mut [u8]) {
        let mut i = 0;
        while i < buf.len() {
            let w = self.next_u64().to_le_bytes();
            let take = (buf.len() - i).min(8);
            buf[i..i + take].copy_from_slice(&w[..take]);
            i += take;
        }
    }
    pub fn arr32(&mut self) -> [u8; 32] {
        let mut a = [0u8; 32];
        self.fill(&mut a);
        a
    }
    pub fn fork(&mut self) -> Rng {
        Rng::new(self.next_u64())
    }
    pub fn shuffle<T>(&mut self, xs: &mut [T]) {
        for i in (1..xs.len()).rev() {
            let j = self.usize_below(i + 1);
            xs.swap(i, j);
        }
    }
}
