//! Per-run event trace with a canonical running hash. No PRNG draw, no clock read here.

use std::cell::RefCell;
use std::collections::VecDeque;

pub struct Trace {
    hasher: blake3::Hasher,
    pub count: u64,
    tail: VecDeque<String>,
    full: Option<Vec<String>>,
}

const TAIL: usize = 60;

thread_local! {
    static TRACE: RefCell<Trace> = RefCell::new(Trace::new(false));
}

impl Trace {
    fn new(full: bool) -> Self {
        Trace {
            hasher: blake3::Hasher::new(),
            count: 0,
            tail: VecDeque::new(),
            full: if full { Some(Vec::new()) } else { None },
        }
    }
}

pub fn reset(keep_full: bool) {
    TRACE.with(|t| *t.borrow_mut() = Trace::new(keep_full));
}

pub fn event(s: String) -> u64 {
    TRACE.with(|t| {
        let mut t = t.borrow_mut();
        t.hasher.update(s.as_bytes());
        t.hasher.update(b"\n");
        t.count += 1;
        if let Some(f) = t.full.as_mut() {
            f.push(s.clone());
        }
        if t.tail.len() >= TAIL {
            t.tail.pop_front();
        }
        t.tail.push_back(s);
        t.count
    })
}

pub fn count() -> u64 {
    TRACE.with(|t| t.borrow().count)
}

pub fn hash() -> String {
    TRACE.with(|t| t.borrow().hasher.finalize().to_hex()[..32].to_string())
}

pub fn tail() -> Vec<String> {
    TRACE.with(|t| t.borrow().tail.iter().cloned().collect())
}

pub fn full() -> Option<Vec<String>> {
    TRACE.with(|t| t.borrow().full.clone())
}

#[macro_export]
macro_rules! ev {
    ($($arg:tt)*) => { $crate::simkit::trace::event(format!($($arg)*)) };
}
