//! `getrandom` interposer: libstd's RandomState (HashMap iteration order) and
//! uuid v4 reach the libc symbol `getrandom`; this binary exports its own, fed
//! from a thread-local seeded stream while a simulated run is active on the
//! thread, falling back to the real syscall otherwise.

use super::rng::Rng;
use std::cell::RefCell;

thread_local! {
    static STREAM: RefCell<Option<Rng>> = const { RefCell::new(None) };
}

pub fn seed_thread(seed: u64) {
    STREAM.with(|s| *s.borrow_mut() = Some(Rng::new(seed ^ 0x6765_7472_616e_646f)));
}

pub fn unseed_thread() {
    STREAM.with(|s| *s.borrow_mut() = None);
}

/// # Safety
/// Called by libc clients with a valid buffer of `len` bytes.
#[unsafe(no_mangle)]
pub unsafe extern "C" fn getrandom(buf: *mut u8, len: usize, flags: u32) -> isize {
    let used = STREAM
        .try_with(|s| {
            if let Ok(mut g) = s.try_borrow_mut() {
                if let Some(r) = g.as_mut() {
                    let slice = unsafe { std::slice::from_raw_parts_mut(buf, len) };
                    r.fill(slice);
                    return true;
                }
            }
            false
        })
        .unwrap_or(false);
    if used {
        return len as isize;
    }
    unsafe { libc::syscall(libc::SYS_getrandom, buf, len, flags) as isize }
}
