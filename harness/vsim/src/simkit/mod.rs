//! Simulation kit: PRNG, determinism seams, trace, run isolation, report types.

pub mod alloc;
pub mod driver;
pub mod interpose;
pub mod keys;
pub mod rng;
pub mod shrink;
pub mod trace;

use serde::{Deserialize, Serialize};
use serde_json::Value;
use std::collections::BTreeMap;

pub use rng::Rng;

#[derive(Clone, Copy, Debug, PartialEq, Eq)]
pub enum Tier {
    Quick,
    Thorough,
}

impl Tier {
    pub fn name(&self) -> &'static str {
        match self {
            Tier::Quick => "quick",
            Tier::Thorough => "thorough",
        }
    }
    pub fn parse(s: &str) -> Option<Tier> {
        match s {
            "quick" => Some(Tier::Quick),
            "thorough" => Some(Tier::Thorough),
            _ => None,
        }
    }
}

/// One oracle clause that failed.
#[derive(Clone, Debug, Serialize, Deserialize, PartialEq)]
pub struct Violation {
    /// Stable clause name, e.g. `C09.cache.verdict_differs`.
    pub class: String,
    /// Stable discriminator (call site / input shape) used to match known findings.
    pub key: String,
    /// Free text for the human.
    pub detail: String,
    /// Index in the event trace at which the clause failed.
    pub event: u64,
}

#[derive(Clone, Debug, Default, Serialize, Deserialize)]
pub struct RunReport {
    pub violations: Vec<Violation>,
    pub trace_hash: String,
    pub events: u64,
    /// Operations completed by the workload.
    pub ops: u64,
    /// Fault kinds that actually fired, with counts.
    pub faults: BTreeMap<String, u64>,
    /// "This rare condition was reached" probes.
    pub probes: BTreeMap<String, u64>,
    /// Simulated milliseconds covered.
    pub sim_ms: u64,
    /// Whether the run counts as non-trivial by the check's stated rule.
    pub nontrivial: bool,
    /// Harness error (not a violation): determinism/setup failures.
    pub harness_error: Option<String>,
    pub tail: Vec<String>,
}

/// Collector used by executors.
#[derive(Default)]
pub struct Ctx {
    pub violations: Vec<Violation>,
    pub ops: u64,
    pub faults: BTreeMap<String, u64>,
    pub probes: BTreeMap<String, u64>,
    pub sim_ms: u64,
    pub nontrivial: bool,
    pub harness_error: Option<String>,
}

impl Ctx {
    pub fn new() -> Self {
        Self::default()
    }
    pub fn violate(&mut self, class: &str, key: impl Into<String>, detail: impl Into<String>) {
        let key = key.into();
        let detail = detail.into();
        let event = trace::event(format!("VIOLATION {class} key={key}"));
        // keep at most a handful per (class,key) to bound report size
        if self
            .violations
            .iter()
            .filter(|v| v.class == class && v.key == key)
            .count()
            >= 1
        {
            return;
        }
        self.violations.push(Violation {
            class: class.to_string(),
            key,
            detail,
            event,
        });
    }
    pub fn fault(&mut self, kind: &str) {
        *self.faults.entry(kind.to_string()).or_insert(0) += 1;
    }
    pub fn probe(&mut self, name: &str) {
        *self.probes.entry(name.to_string()).or_insert(0) += 1;
    }
    pub fn probe_n(&mut self, name: &str, n: u64) {
        *self.probes.entry(name.to_string()).or_insert(0) += n;
    }
    pub fn finish(self) -> RunReport {
        RunReport {
            violations: self.violations,
            trace_hash: trace::hash(),
            events: trace::count(),
            ops: self.ops,
            faults: self.faults,
            probes: self.probes,
            sim_ms: self.sim_ms,
            nontrivial: self.nontrivial,
            harness_error: self.harness_error,
            tail: trace::tail(),
        }
    }
}

/// A registered check: generator, executor, shrinker.
pub struct CheckDef {
    pub id: &'static str,
    pub level: &'static str,
    pub technique: &'static str,
    /// Default number of runs per tier (quick, thorough).
    pub runs: (u64, u64),
    /// Plain-data scenario from a seed.
    pub generate: fn(seed: u64, tier: Tier) -> Value,
    /// Pure function of the scenario and the code. Runs on a fresh OS thread.
    pub execute: fn(sc: &Value) -> RunReport,
    /// Candidate simpler scenarios, most aggressive first.
    pub shrink: fn(sc: &Value) -> Vec<Value>,
    /// Text for evidence `rule`.
    pub rule: &'static str,
    pub real_components: &'static [&'static str],
    pub stubbed_components: &'static [&'static str],
    pub assumptions: &'static [&'static str],
}

thread_local! {
    static RUN_SEED: std::cell::Cell<u64> = const { std::cell::Cell::new(0) };
}

/// Seed of the run executing on this thread (for harness-side derivations).
pub fn run_seed() -> u64 {
    RUN_SEED.with(|s| s.get())
}

/// Largest single allocation a simulated run may request (bounded-memory clauses).
pub const ALLOC_CAP_BYTES: usize = 256 << 20;

/// Run `f` on a fresh OS thread with the determinism seams seeded from `seed`.
/// Returns Err(message) on panic.
pub fn run_isolated<T: Send + 'static>(
    seed: u64,
    f: impl FnOnce() -> T + Send + 'static,
) -> Result<T, String> {
    let h = std::thread::Builder::new()
        .name(format!("sim-{seed}"))
        .stack_size(256 << 20)
        .spawn(move || {
            interpose::seed_thread(seed);
            RUN_SEED.with(|s| s.set(seed));
            trace::reset(false);
            alloc::set_thread_cap(ALLOC_CAP_BYTES);
            let r = std::panic::catch_unwind(std::panic::AssertUnwindSafe(f));
            interpose::unseed_thread();
            r
        })
        .map_err(|e| format!("spawn: {e}"))?;
    match h.join() {
        Ok(Ok(v)) => Ok(v),
        Ok(Err(p)) | Err(p) => Err(panic_msg(&p)),
    }
}

pub fn panic_msg(p: &Box<dyn std::any::Any + Send>) -> String {
    if let Some(s) = p.downcast_ref::<&str>() {
        s.to_string()
    } else if let Some(s) = p.downcast_ref::<String>() {
        s.clone()
    } else {
        "panic (non-string payload)".to_string()
    }
}

/// Deterministic current-thread runtime with the clock paused.
pub fn sim_runtime(seed: u64) -> tokio::runtime::Runtime {
    let mut bytes = [0u8; 32];
    let mut r = Rng::new(seed ^ 0x746f_6b69_6f00_0001);
    r.fill(&mut bytes);
    tokio::runtime::Builder::new_current_thread()
        .enable_all()
        .start_paused(true)
        .rng_seed(tokio::runtime::RngSeed::from_bytes(&bytes))
        .build()
        .expect("runtime")
}

/// Execute a check's scenario in isolation; a panic of the executor thread is
/// reported as a violation of the `<id>.panic` class (the check decides whether
/// a panic is within the property; harness assertion failures use harness_error).
pub fn execute_isolated(def: &'static CheckDef, sc: &Value) -> RunReport {
    let seed = sc.get("seed").and_then(|v| v.as_u64()).unwrap_or(0);
    let sc2 = sc.clone();
    let exec = def.execute;
    match run_isolated(seed, move || exec(&sc2)) {
        Ok(r) => r,
        Err(msg) => RunReport {
            violations: vec![Violation {
                class: format!("{}.panic", def.id),
                key: panic_key(&msg),
                detail: msg,
                event: 0,
            }],
            trace_hash: "panic".into(),
            nontrivial: true,
            ..Default::default()
        },
    }
}

fn panic_key(msg: &str) -> String {
    // stable prefix of the message without numbers
    let s: String = msg
        .chars()
        .take(80)
        .map(|c| if c.is_ascii_digit() { '#' } else { c })
        .collect();
    s
}

pub fn scratch_root() -> std::path::PathBuf {
    let base = std::env::var("VERIF_SCRATCH").unwrap_or_else(|_| "/dev/shm".to_string());
    std::path::PathBuf::from(base).join(format!("verif-{}", std::process::id()))
}

/// Fresh scratch dir for a run; removed by `Scratch::drop`.
pub struct Scratch {
    pub path: std::path::PathBuf,
}
impl Scratch {
    pub fn new(tag: &str) -> Self {
        use std::sync::atomic::{AtomicU64, Ordering};
        static N: AtomicU64 = AtomicU64::new(0);
        let n = N.fetch_add(1, Ordering::Relaxed);
        let path = scratch_root().join(format!("{tag}-{n}"));
        let _ = std::fs::remove_dir_all(&path);
        std::fs::create_dir_all(&path).expect("scratch dir");
        Scratch { path }
    }
}
impl Drop for Scratch {
    fn drop(&mut self) {
        let _ = std::fs::remove_dir_all(&self.path);
    }
}


// ---- panic recorder: panics inside spawned tasks are swallowed by tokio; record them per thread
thread_local! { static PANICS: std::cell::RefCell<Vec<String>> = const { std::cell::RefCell::new(Vec::new()) }; }
pub fn install_panic_recorder() {
    static ONCE: std::sync::Once = std::sync::Once::new();
    ONCE.call_once(|| {
        let prev = std::panic::take_hook();
        std::panic::set_hook(Box::new(move |info| {
            let _ = PANICS.try_with(|p| p.borrow_mut().push(format!("{info}")));
            prev(info);
        }));
    });
}
pub fn take_panics() -> Vec<String> {
    PANICS.with(|p| std::mem::take(&mut *p.borrow_mut()))
}
