//! Fixed pool of ML-DSA-65 key pairs (generated once, committed), so that
//! identities — and everything hashed from them — are identical in every run.
//! `rand`'s OS randomness cannot be seeded (getrandom 0.2 issues a raw syscall).

use saorsa_core::quantum_crypto::ant_quic_integration::{MlDsaPublicKey, MlDsaSecretKey};

const PK: usize = 1952;
const SK: usize = 4032;
static POOL: &[u8] = include_bytes!("../../data/mldsa_pool.bin");

pub fn pool_len() -> usize {
    POOL.len() / (PK + SK)
}

pub fn keypair(i: usize) -> (MlDsaPublicKey, MlDsaSecretKey) {
    let i = i % pool_len().max(1);
    let off = i * (PK + SK);
    let pk = MlDsaPublicKey::from_bytes(&POOL[off..off + PK]).expect("pool pk");
    let sk = MlDsaSecretKey::from_bytes(&POOL[off + PK..off + PK + SK]).expect("pool sk");
    (pk, sk)
}

pub fn generate_pool(path: &std::path::Path, n: usize) {
    let mut out = Vec::new();
    for _ in 0..n {
        let (pk, sk) =
            saorsa_core::quantum_crypto::ant_quic_integration::generate_ml_dsa_keypair().expect("keygen");
        assert_eq!(pk.as_bytes().len(), PK);
        assert_eq!(sk.as_bytes().len(), SK);
        out.extend_from_slice(pk.as_bytes());
        out.extend_from_slice(sk.as_bytes());
    }
    std::fs::write(path, out).expect("write pool");
}
