//! Driver / worker process management, known findings, replay, evidence.

use super::rng::{mix, str_hash};
use super::shrink;
use super::{CheckDef, RunReport, Tier, Violation};
use serde::{Deserialize, Serialize};
use serde_json::{Value, json};
use std::collections::{BTreeMap, BTreeSet};
use std::io::{BufRead, BufReader, Write};
use std::path::{Path, PathBuf};
use std::process::{Command, Stdio};
use std::time::Instant;

pub fn verif_root() -> PathBuf {
    PathBuf::from(std::env::var("VERIF_ROOT").unwrap_or_else(|_| "/verif".to_string()))
}

pub fn base_seed() -> u64 {
    std::env::var("VERIF_SEED")
        .ok()
        .and_then(|s| s.trim().parse::<u64>().ok())
        .unwrap_or(1)
}

pub fn run_seed(base: u64, id: &str, idx: u64) -> u64 {
    // keep seeds below 2^53 so they survive JSON round trips everywhere
    mix(&[base, str_hash(id), idx]) >> 11
}

#[derive(Serialize, Deserialize, Clone, Debug)]
pub struct KnownFinding {
    pub property: String,
    pub class: String,
    /// Regex matched against the violation key (anchored).
    pub key: String,
    pub what: String,
}

#[derive(Serialize, Deserialize, Clone, Debug, Default)]
pub struct KnownFindings {
    #[serde(default)]
    pub findings: Vec<KnownFinding>,
    #[serde(default)]
    pub fixed: Vec<String>,
}

pub fn load_known() -> KnownFindings {
    let p = verif_root().join("known_findings.json");
    match std::fs::read_to_string(&p) {
        Ok(s) => serde_json::from_str(&s).unwrap_or_else(|e| {
            eprintln!("HARNESS-ERROR: cannot parse {}: {e}", p.display());
            std::process::exit(2);
        }),
        Err(_) => KnownFindings::default(),
    }
}

pub fn match_known<'a>(k: &'a KnownFindings, id: &str, v: &Violation) -> Option<&'a KnownFinding> {
    k.findings.iter().find(|f| {
        f.property == id
            && f.class == v.class
            && regex::Regex::new(&format!("^(?:{})$", f.key))
                .map(|r| r.is_match(&v.key))
                .unwrap_or(false)
    })
}

#[derive(Serialize, Deserialize)]
#[serde(tag = "t")]
enum WorkerMsg {
    #[serde(rename = "start")]
    Start { i: u64, seed: u64 },
    #[serde(rename = "done")]
    Done {
        i: u64,
        seed: u64,
        report: RunReport,
        scenario: Option<Value>,
    },
    #[serde(rename = "capped")]
    Capped { next: u64 },
}

/// Worker: run indices from, from+step, … < to; one JSON line per event on stdout.
pub fn worker_main(
    def: &'static CheckDef,
    tier: Tier,
    base: u64,
    from: u64,
    to: u64,
    step: u64,
    samples: u64,
    max_secs: u64,
) {
    let t0 = Instant::now();
    let out = std::io::stdout();
    let mut i = from;
    // Warm-up (discarded): process-global lazies (crypto tables, registries) are
    // initialised here, so that no measured run depends on its position in the
    // process. Replay does the same.
    if from < to {
        let sc = (def.generate)(run_seed(base, def.id, from), tier);
        let _ = super::execute_isolated(def, &sc);
    }
    while i < to {
        if t0.elapsed().as_secs() >= max_secs {
            let mut o = out.lock();
            let _ = writeln!(
                o,
                "{}",
                serde_json::to_string(&WorkerMsg::Capped { next: i }).unwrap()
            );
            break;
        }
        let seed = run_seed(base, def.id, i);
        {
            let mut o = out.lock();
            let _ = writeln!(
                o,
                "{}",
                serde_json::to_string(&WorkerMsg::Start { i, seed }).unwrap()
            );
            let _ = o.flush();
        }
        let sc = (def.generate)(seed, tier);
        let report = super::execute_isolated(def, &sc);
        let keep = !report.violations.is_empty() || report.harness_error.is_some() || i < samples;
        let msg = WorkerMsg::Done {
            i,
            seed,
            report,
            scenario: if keep { Some(sc) } else { None },
        };
        {
            let mut o = out.lock();
            let _ = writeln!(o, "{}", serde_json::to_string(&msg).unwrap());
            let _ = o.flush();
        }
        i += step;
    }
    let _ = std::fs::remove_dir_all(super::scratch_root());
}

pub struct BatchItem {
    pub i: u64,
    pub seed: u64,
    pub report: RunReport,
    pub scenario: Option<Value>,
}

pub struct Batch {
    pub items: Vec<BatchItem>,
    /// (index, seed, status) of runs whose worker died.
    pub crashed: Vec<(u64, u64, String)>,
    pub capped: bool,
}

fn self_exe() -> PathBuf {
    std::env::current_exe().expect("current_exe")
}

/// Wall-clock cap for a single run; a worker stuck longer is killed and the run reported.
pub fn per_run_cap_secs(tier: Tier) -> u64 {
    std::env::var("VERIF_RUN_CAP_SECS").ok().and_then(|s| s.parse().ok()).unwrap_or(match tier {
        Tier::Quick => 60,
        Tier::Thorough => 180,
    })
}

/// Run a command, killing it after `secs`. None = killed on timeout.
pub fn run_with_deadline(cmd: &mut Command, secs: u64) -> Option<std::process::ExitStatus> {
    let mut child = cmd.spawn().ok()?;
    let t0 = Instant::now();
    loop {
        match child.try_wait() {
            Ok(Some(st)) => return Some(st),
            Ok(None) => {
                if t0.elapsed().as_secs() >= secs {
                    let _ = child.kill();
                    let _ = child.wait();
                    return None;
                }
                std::thread::sleep(std::time::Duration::from_millis(20));
            }
            Err(_) => return None,
        }
    }
}

pub fn run_batch(
    def: &'static CheckDef,
    tier: Tier,
    base: u64,
    indices: (u64, u64),
    workers: u64,
    samples: u64,
    max_secs: u64,
) -> Batch {
    let (from, to) = indices;
    let workers = workers.max(1).min((to - from).max(1));
    let run_cap = per_run_cap_secs(tier);
    let mut handles = Vec::new();
    for w in 0..workers {
        handles.push(std::thread::spawn(move || {
            let mut items: Vec<BatchItem> = Vec::new();
            let mut crashed: Vec<(u64, u64, String)> = Vec::new();
            let mut capped = false;
            let mut next = from + w;
            let mut respawns = 0;
            let errfile = std::env::temp_dir().join(format!("vsim-{}-w{}.err", std::process::id(), w));
            while next < to && respawns < 40 {
                let err = std::fs::File::create(&errfile).ok();
                let mut child = Command::new(self_exe())
                    .arg("worker")
                    .arg(def.id)
                    .arg("--tier")
                    .arg(tier.name())
                    .arg("--base")
                    .arg(base.to_string())
                    .arg("--from")
                    .arg(next.to_string())
                    .arg("--to")
                    .arg(to.to_string())
                    .arg("--step")
                    .arg(workers.to_string())
                    .arg("--samples")
                    .arg(samples.to_string())
                    .arg("--max-secs")
                    .arg(max_secs.to_string())
                    .stdout(Stdio::piped())
                    .stderr(err.map(Stdio::from).unwrap_or_else(Stdio::null))
                    .spawn()
                    .expect("spawn worker");
                let pid = child.id() as i32;
                let started: std::sync::Arc<std::sync::Mutex<Option<Instant>>> = std::sync::Arc::new(std::sync::Mutex::new(None));
                let done = std::sync::Arc::new(std::sync::atomic::AtomicBool::new(false));
                let timed_out = std::sync::Arc::new(std::sync::atomic::AtomicBool::new(false));
                let wd = {
                    let started = started.clone();
                    let done = done.clone();
                    let timed_out = timed_out.clone();
                    std::thread::spawn(move || {
                        while !done.load(std::sync::atomic::Ordering::Relaxed) {
                            std::thread::sleep(std::time::Duration::from_millis(200));
                            let s = *started.lock().unwrap();
                            if let Some(t) = s {
                                if t.elapsed().as_secs() >= run_cap {
                                    timed_out.store(true, std::sync::atomic::Ordering::Relaxed);
                                    unsafe { libc::kill(pid, libc::SIGKILL); }
                                    break;
                                }
                            }
                        }
                    })
                };
                let stdout = child.stdout.take().expect("stdout");
                let reader = BufReader::new(stdout);
                let mut last_start: Option<(u64, u64)> = None;
                for line in reader.lines() {
                    let Ok(line) = line else { break };
                    match serde_json::from_str::<WorkerMsg>(&line) {
                        Ok(WorkerMsg::Start { i, seed }) => {
                            last_start = Some((i, seed));
                            *started.lock().unwrap() = Some(Instant::now());
                        }
                        Ok(WorkerMsg::Done { i, seed, report, scenario }) => {
                            last_start = None;
                            *started.lock().unwrap() = None;
                            items.push(BatchItem { i, seed, report, scenario });
                        }
                        Ok(WorkerMsg::Capped { .. }) => capped = true,
                        Err(_) => {}
                    }
                }
                let status = child.wait().ok();
                done.store(true, std::sync::atomic::Ordering::Relaxed);
                let _ = wd.join();
                match last_start {
                    Some((i, seed)) => {
                        let reason = if timed_out.load(std::sync::atomic::Ordering::Relaxed) {
                            format!("timeout: run exceeded {run_cap} s of wall clock")
                        } else {
                            let errtxt = std::fs::read_to_string(&errfile).unwrap_or_default();
                            if let Some(l) = errtxt.lines().rev().find(|l| l.starts_with("VSIM-ALLOC-CAP")) {
                                format!("alloc_cap: single allocation request over the cap ({l})")
                            } else {
                                format!("died: {}", status.map(|s| format!("{s}")).unwrap_or_else(|| "unknown".into()))
                            }
                        };
                        crashed.push((i, seed, reason));
                        next = i + workers;
                        respawns += 1;
                    }
                    None => break,
                }
            }
            let _ = std::fs::remove_file(&errfile);
            (items, crashed, capped)
        }));
    }
    let mut batch = Batch {
        items: Vec::new(),
        crashed: Vec::new(),
        capped: false,
    };
    for h in handles {
        let (items, crashed, capped) = h.join().expect("reader thread");
        batch.items.extend(items);
        batch.crashed.extend(crashed);
        batch.capped |= capped;
    }
    batch.items.sort_by_key(|b| b.i);
    batch
}

#[derive(Serialize, Deserialize, Clone)]
pub struct ReplayFile {
    pub property: String,
    pub seed: u64,
    pub class: String,
    pub key: String,
    pub detail: String,
    pub trace_hash: String,
    pub first_failing_event: u64,
    pub minimised: bool,
    pub minimise_executions: usize,
    pub scenario: Value,
    #[serde(default)]
    pub trace_tail: Vec<String>,
}

fn sanitize(s: &str) -> String {
    s.chars()
        .map(|c| if c.is_ascii_alphanumeric() || c == '.' || c == '-' { c } else { '_' })
        .take(60)
        .collect()
}

/// `vsim replay <file>`: exit 1 + VIOLATION line if it reproduces (same class/key and hash), else 0.
pub fn replay_main(def_lookup: impl Fn(&str) -> Option<&'static CheckDef>, path: &Path) -> i32 {
    let Ok(s) = std::fs::read_to_string(path) else {
        eprintln!("HARNESS-ERROR: cannot read {}", path.display());
        return 2;
    };
    let Ok(rf) = serde_json::from_str::<ReplayFile>(&s) else {
        eprintln!("HARNESS-ERROR: cannot parse {}", path.display());
        return 2;
    };
    let Some(def) = def_lookup(&rf.property) else {
        eprintln!("HARNESS-ERROR: unknown property {}", rf.property);
        return 2;
    };
    let _warmup = super::execute_isolated(def, &rf.scenario);
    let r = super::execute_isolated(def, &rf.scenario);
    let hit = r
        .violations
        .iter()
        .find(|v| v.class == rf.class && v.key == rf.key);
    match hit {
        Some(v) => {
            let same_hash = r.trace_hash == rf.trace_hash;
            println!(
                "REPLAY reproduced class={} key={} event={} hash_match={}",
                v.class, v.key, v.event, same_hash
            );
            println!("detail: {}", v.detail);
            for l in &r.tail {
                println!("  | {l}");
            }
            println!("VIOLATION property={} replay={}", rf.property, path.display());
            1
        }
        None => {
            println!(
                "REPLAY not reproduced: class={} key={} (violations now: {:?})",
                rf.class,
                rf.key,
                r.violations.iter().map(|v| format!("{}:{}", v.class, v.key)).collect::<Vec<_>>()
            );
            0
        }
    }
}

/// `vsim minimise <file>`: shrink the scenario in place.
pub fn minimise_main(def_lookup: impl Fn(&str) -> Option<&'static CheckDef>, path: &Path) -> i32 {
    let Ok(s) = std::fs::read_to_string(path) else { return 2 };
    let Ok(mut rf) = serde_json::from_str::<ReplayFile>(&s) else { return 2 };
    let Some(def) = def_lookup(&rf.property) else { return 2 };
    let target = Violation {
        class: rf.class.clone(),
        key: rf.key.clone(),
        detail: String::new(),
        event: 0,
    };
    let _warmup = super::execute_isolated(def, &rf.scenario);
    let budget = std::env::var("VERIF_MIN_BUDGET").ok().and_then(|s| s.parse().ok()).unwrap_or(300);
    let (best, report, used) = shrink::minimise(def, &rf.scenario, &target, budget);
    if let Some(v) = shrink::same_class(&report, &target) {
        rf.scenario = best;
        rf.trace_hash = report.trace_hash.clone();
        rf.first_failing_event = v.event;
        rf.detail = v.detail;
        rf.minimised = true;
        rf.minimise_executions = used;
        rf.trace_tail = report.tail.clone();
        let tmp = path.with_extension("json.tmp");
        if std::fs::write(&tmp, serde_json::to_string_pretty(&rf).unwrap()).is_ok() {
            let _ = std::fs::rename(&tmp, path);
        }
        0
    } else {
        // did not reproduce in this process
        3
    }
}

pub struct CheckOptions {
    pub runs: Option<u64>,
    pub workers: u64,
    pub max_secs: u64,
    pub audit: u64,
}

/// The check entry point: batch, audit, triage, evidence. Returns the exit code.
pub fn check_main(def: &'static CheckDef, tier: Tier, opt: CheckOptions) -> i32 {
    let t0 = Instant::now();
    let base = base_seed();
    println!("VERIF_SEED={base} property={} tier={}", def.id, tier.name());
    let total = opt.runs.unwrap_or(match tier {
        Tier::Quick => def.runs.0,
        Tier::Thorough => def.runs.1,
    });
    let samples_n = 4u64;
    let batch = run_batch(def, tier, base, (0, total), opt.workers, samples_n, opt.max_secs);
    let root = verif_root();
    let _ = std::fs::create_dir_all(root.join("replays"));
    let _ = std::fs::create_dir_all(root.join("evidence"));

    // ---- determinism audit: re-run the first `audit` indices in another process
    let audit_n = opt.audit.min(total);
    let mut audit_mismatch: Vec<String> = Vec::new();
    let mut audited = 0u64;
    if audit_n > 0 {
        let again = run_batch(def, tier, base, (0, audit_n), (opt.workers / 2).max(1), 0, opt.max_secs);
        let first: BTreeMap<u64, &BatchItem> = batch.items.iter().map(|b| (b.i, b)).collect();
        for b in &again.items {
            if let Some(a) = first.get(&b.i) {
                audited += 1;
                if a.report.trace_hash != b.report.trace_hash {
                    audit_mismatch.push(format!(
                        "index {} seed {}: {} vs {}",
                        b.i, b.seed, a.report.trace_hash, b.report.trace_hash
                    ));
                }
            }
        }
    }

    // ---- aggregate
    let mut faults: BTreeMap<String, u64> = BTreeMap::new();
    let mut probes: BTreeMap<String, u64> = BTreeMap::new();
    let mut distinct: BTreeSet<String> = BTreeSet::new();
    let mut sim_ms = 0u64;
    let mut ops = 0u64;
    let mut events = 0u64;
    let mut harness_errors: Vec<String> = Vec::new();
    let mut groups: BTreeMap<(String, String), (usize, u64)> = BTreeMap::new(); // -> (first item position, count)
    for (pos, b) in batch.items.iter().enumerate() {
        for (k, v) in &b.report.faults {
            *faults.entry(k.clone()).or_insert(0) += v;
        }
        for (k, v) in &b.report.probes {
            *probes.entry(k.clone()).or_insert(0) += v;
        }
        if b.report.nontrivial {
            distinct.insert(b.report.trace_hash.clone());
        }
        sim_ms += b.report.sim_ms;
        ops += b.report.ops;
        events += b.report.events;
        if let Some(e) = &b.report.harness_error {
            harness_errors.push(format!("index {} seed {}: {e}", b.i, b.seed));
        }
        for v in &b.report.violations {
            let e = groups.entry((v.class.clone(), v.key.clone())).or_insert((pos, 0));
            e.1 += 1;
        }
    }

    let known = load_known();
    let mut known_hits: BTreeMap<String, u64> = BTreeMap::new();
    let mut new_violations: Vec<(Violation, usize, u64)> = Vec::new();
    for ((class, key), (pos, count)) in &groups {
        let item = &batch.items[*pos];
        let v = item
            .report
            .violations
            .iter()
            .find(|v| &v.class == class && &v.key == key)
            .cloned()
            .unwrap();
        if let Some(f) = match_known(&known, def.id, &v) {
            *known_hits.entry(format!("{} [{}]", f.what, f.class)).or_insert(0) += count;
        } else {
            new_violations.push((v, *pos, *count));
        }
    }
    for (what, n) in &known_hits {
        println!("KNOWN-FINDING: property={} {} (seen in {} runs)", def.id, what, n);
    }

    // ---- worker crashes: attribute, confirm alone
    let mut exit_code = 0;
    let mut violation_lines: Vec<String> = Vec::new();
    for (i, seed, status) in &batch.crashed {
        let sc = (def.generate)(*seed, tier);
        let kind = status.split(':').next().unwrap_or("died").to_string();
        let v = Violation {
            class: format!("{}.abort", def.id),
            key: kind.clone(),
            detail: format!("worker process lost while running index {i} seed {seed}: {status}"),
            event: 0,
        };
        if let Some(f) = match_known(&known, def.id, &v) {
            println!("KNOWN-FINDING: property={} {} (index {i})", def.id, f.what);
            continue;
        }
        let rf = ReplayFile {
            property: def.id.to_string(),
            seed: *seed,
            class: v.class.clone(),
            key: v.key.clone(),
            detail: v.detail.clone(),
            trace_hash: "abort".into(),
            first_failing_event: 0,
            minimised: false,
            minimise_executions: 0,
            scenario: sc,
            trace_tail: vec![],
        };
        let path = root.join("replays").join(format!("{}-{}-abort-{}.json", def.id, seed, kind));
        let _ = std::fs::write(&path, serde_json::to_string_pretty(&rf).unwrap());
        // confirm: replay alone in a fresh process; dying or hanging again confirms
        let st = run_with_deadline(
            Command::new(self_exe()).arg("replay").arg(&path).stdout(Stdio::null()).stderr(Stdio::null()),
            per_run_cap_secs(tier) * 2 + 5,
        );
        match st {
            Some(s) if s.code() == Some(0) => {
                harness_errors.push(format!("worker lost at index {i} seed {seed} ({status}) but replay alone completes"));
            }
            _ => {
                println!("violation class={} key={} detail={}", v.class, v.key, v.detail);
                violation_lines.push(format!("VIOLATION property={} replay={}", def.id, path.display()));
                exit_code = 1;
            }
        }
    }

    // ---- new violations: minimise (subprocess), confirm (subprocess), report
    let mut minimise_runs = 0usize;
    let max_report = 6usize;
    for (n, (v, pos, count)) in new_violations.iter().enumerate() {
        let item = &batch.items[*pos];
        let Some(sc) = item.scenario.clone() else {
            harness_errors.push(format!("violation without scenario at index {}", item.i));
            continue;
        };
        let path = root.join("replays").join(format!(
            "{}-{}-{}.json",
            def.id,
            item.seed,
            sanitize(&format!("{}-{}", v.class, v.key))
        ));
        let rf = ReplayFile {
            property: def.id.to_string(),
            seed: item.seed,
            class: v.class.clone(),
            key: v.key.clone(),
            detail: v.detail.clone(),
            trace_hash: item.report.trace_hash.clone(),
            first_failing_event: v.event,
            minimised: false,
            minimise_executions: 0,
            scenario: sc,
            trace_tail: item.report.tail.clone(),
        };
        let _ = std::fs::write(&path, serde_json::to_string_pretty(&rf).unwrap());
        if n < max_report {
            let _ = Command::new(self_exe()).arg("minimise").arg(&path).stdout(Stdio::null()).stderr(Stdio::null()).status();
            if let Ok(s) = std::fs::read_to_string(&path) {
                if let Ok(r2) = serde_json::from_str::<ReplayFile>(&s) {
                    minimise_runs += r2.minimise_executions;
                }
            }
        }
        let st = Command::new(self_exe()).arg("replay").arg(&path).stdout(Stdio::null()).stderr(Stdio::null()).status();
        match st.ok().and_then(|s| s.code()) {
            Some(1) => {
                println!(
                    "violation class={} key={} runs={} detail={}",
                    v.class, v.key, count, v.detail
                );
                violation_lines.push(format!("VIOLATION property={} replay={}", def.id, path.display()));
                exit_code = 1;
            }
            other => {
                harness_errors.push(format!(
                    "violation {}:{} at index {} did not reproduce on replay (exit {:?})",
                    v.class, v.key, item.i, other
                ));
            }
        }
    }
    for l in &violation_lines {
        println!("{l}");
    }

    if !audit_mismatch.is_empty() {
        for m in &audit_mismatch {
            eprintln!("HARNESS-ERROR: determinism audit mismatch: {m}");
        }
        harness_errors.push(format!("{} audit mismatches", audit_mismatch.len()));
    }

    // ---- evidence
    let wall = t0.elapsed().as_secs_f64();
    let evaluations = batch.items.len() as u64;
    let samples: Vec<Value> = batch
        .items
        .iter()
        .filter(|b| b.i < samples_n)
        .filter_map(|b| {
            b.scenario.as_ref().map(|s| {
                json!({"index": b.i, "seed": b.seed, "scenario": truncate_value(s, 6000), "ops": b.report.ops,
                       "events": b.report.events, "trace_hash": b.report.trace_hash, "faults": b.report.faults})
            })
        })
        .collect();
    let zero_probes: Vec<String> = probes.iter().filter(|(_, v)| **v == 0).map(|(k, _)| k.clone()).collect();
    let ev = json!({
        "property_id": def.id,
        "tier": tier.name(),
        "seed": base,
        "level": def.level,
        "coverage": {
            "evaluations": evaluations,
            "distinct_nontrivial": distinct.len(),
            "rule": def.rule,
            "samples": samples,
            "technique": def.technique,
            "runs_requested": total,
            "stopped_by_wall_cap": batch.capped,
            "runs_per_hour": if wall > 0.0 { (evaluations as f64 / wall * 3600.0) as u64 } else { 0 },
            "simulated_seconds": sim_ms / 1000,
            "operations": ops,
            "trace_events": events,
            "faults_fired": faults,
            "probes": probes,
            "probes_at_zero": zero_probes,
            "components_real": def.real_components,
            "components_stubbed": def.stubbed_components,
            "audit": {"seeds_rerun_in_other_process": audited, "hash_mismatches": audit_mismatch.len()},
            "known_findings_hit": known_hits,
            "violation_classes_new": new_violations.iter().map(|(v,_,c)| json!({"class": v.class, "key": v.key, "runs": c})).collect::<Vec<_>>(),
            "worker_crashes": batch.crashed.len(),
            "minimise_executions": minimise_runs,
            "harness_errors": harness_errors,
            "exhaustive": false
        },
        "assumptions": def.assumptions,
        "wall_s": wall,
        "violations": violation_lines.len()
    });
    let ev_path = root.join("evidence").join(format!("{}.json", def.id));
    let tmp = ev_path.with_extension("json.tmp");
    std::fs::write(&tmp, serde_json::to_string_pretty(&ev).unwrap()).expect("write evidence");
    std::fs::rename(&tmp, &ev_path).expect("rename evidence");

    println!(
        "property={} tier={} runs={} distinct_nontrivial={} ops={} sim_s={} faults={:?} wall={:.1}s",
        def.id,
        tier.name(),
        evaluations,
        distinct.len(),
        ops,
        sim_ms / 1000,
        faults,
        wall
    );
    for (k, v) in &probes {
        if *v == 0 {
            println!("WARNING: probe '{k}' stayed at zero");
        }
    }
    if !harness_errors.is_empty() {
        for e in &harness_errors {
            eprintln!("HARNESS-ERROR: {e}");
        }
        if exit_code == 0 {
            return 2;
        }
    }
    if evaluations == 0 {
        eprintln!("HARNESS-ERROR: no runs completed");
        return 2;
    }
    exit_code
}

fn truncate_value(v: &Value, max: usize) -> Value {
    let s = serde_json::to_string(v).unwrap_or_default();
    if s.len() <= max {
        v.clone()
    } else {
        let mut m = max;
        while !s.is_char_boundary(m) {
            m -= 1;
        }
        json!({"truncated_json": format!("{}…", &s[..m])})
    }
}
