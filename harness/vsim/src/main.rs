//! vsim: deterministic simulation checks for saorsa-core properties.

#[macro_use]
pub mod simkit;
pub mod checks;
pub mod simnet;
pub mod simstore;

use simkit::driver::{self, CheckOptions};
use simkit::Tier;
use std::path::PathBuf;

#[global_allocator]
static ALLOC: simkit::alloc::Counting = simkit::alloc::Counting;

fn arg_val(args: &[String], name: &str) -> Option<String> {
    args.iter().position(|a| a == name).and_then(|i| args.get(i + 1).cloned())
}
fn arg_u64(args: &[String], name: &str) -> Option<u64> {
    arg_val(args, name).and_then(|s| s.parse().ok())
}

fn usage() -> ! {
    eprintln!(
        "usage: vsim check <ID> [--tier quick|thorough] [--runs N] [--workers N] [--max-secs S] [--audit N]\n       vsim replay <file>\n       vsim minimise <file>\n       vsim run1 <ID> (--index I | --seed S) [--tier T]\n       vsim list"
    );
    std::process::exit(2)
}

fn main() {
    // quiet panics from simulated runs: message only, no backtrace spam
    std::panic::set_hook(Box::new(|info| {
        if std::env::var("VSIM_PANIC_VERBOSE").is_ok() {
            eprintln!("panic: {info}");
        }
    }));
    let args: Vec<String> = std::env::args().collect();
    if args.len() < 2 {
        usage();
    }
    let tier = arg_val(&args, "--tier")
        .or_else(|| std::env::var("VERIF_TIER").ok())
        .and_then(|s| Tier::parse(&s))
        .unwrap_or(Tier::Quick);
    let code = match args[1].as_str() {
        "genkeys" => {
            let p = args.get(2).cloned().unwrap_or_else(|| "data/mldsa_pool.bin".into());
            simkit::keys::generate_pool(&PathBuf::from(p), arg_u64(&args, "--n").unwrap_or(12) as usize);
            0
        }
        "addr" => {
            // debugging aid: the library's renderings of the given socket addresses
            for a in &args[2..] {
                match a.parse::<std::net::SocketAddr>() {
                    Ok(sa) => {
                        let r = std::panic::catch_unwind(|| saorsa_core::address::NetworkAddress::new(sa));
                        match r { Ok(na) => println!("{a} -> `{na}` words={:?}", na.four_words()), Err(_) => println!("{a} -> PANIC in NetworkAddress::new") }
                    }
                    Err(e) => println!("{a}: {e}"),
                }
            }
            0
        }
        "list" => {
            for d in checks::all() {
                println!("{} {} runs={:?}", d.id, d.level, d.runs);
            }
            0
        }
        "check" => {
            let Some(def) = args.get(2).and_then(|id| checks::lookup(id)) else { usage() };
            let cores = std::thread::available_parallelism().map(|n| n.get() as u64).unwrap_or(4);
            let opt = CheckOptions {
                runs: arg_u64(&args, "--runs"),
                workers: arg_u64(&args, "--workers").unwrap_or(cores.min(16)),
                max_secs: arg_u64(&args, "--max-secs").unwrap_or(match tier {
                    Tier::Quick => 90,
                    Tier::Thorough => 1500,
                }),
                audit: arg_u64(&args, "--audit").unwrap_or(match tier {
                    Tier::Quick => 16,
                    Tier::Thorough => 200,
                }),
            };
            driver::check_main(def, tier, opt)
        }
        "worker" => {
            let Some(def) = args.get(2).and_then(|id| checks::lookup(id)) else { usage() };
            driver::worker_main(
                def,
                tier,
                arg_u64(&args, "--base").unwrap_or(1),
                arg_u64(&args, "--from").unwrap_or(0),
                arg_u64(&args, "--to").unwrap_or(1),
                arg_u64(&args, "--step").unwrap_or(1),
                arg_u64(&args, "--samples").unwrap_or(0),
                arg_u64(&args, "--max-secs").unwrap_or(3600),
            );
            0
        }
        "replay" => {
            let Some(p) = args.get(2) else { usage() };
            driver::replay_main(checks::lookup, &PathBuf::from(p))
        }
        "minimise" => {
            let Some(p) = args.get(2) else { usage() };
            driver::minimise_main(checks::lookup, &PathBuf::from(p))
        }
        "run1" => {
            let Some(def) = args.get(2).and_then(|id| checks::lookup(id)) else { usage() };
            let seed = arg_u64(&args, "--seed").unwrap_or_else(|| {
                driver::run_seed(driver::base_seed(), def.id, arg_u64(&args, "--index").unwrap_or(0))
            });
            let sc = (def.generate)(seed, tier);
            if args.iter().any(|a| a == "--print-scenario") {
                println!("{}", serde_json::to_string_pretty(&sc).unwrap());
            }
            let _warmup = simkit::execute_isolated(def, &sc);
            let t0 = std::time::Instant::now();
            let r = simkit::execute_isolated(def, &sc);
            println!("seed={seed} wall={:?}", t0.elapsed());
            println!("{}", serde_json::to_string_pretty(&r).unwrap());
            if r.violations.is_empty() { 0 } else { 1 }
        }
        _ => usage(),
    };
    std::process::exit(code);
}
