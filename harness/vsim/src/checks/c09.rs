//! C09 — a peer record verifies only if its owner signed exactly it, cached or not.
//!
//! SIM-COMP: one verifier holding a real `SignatureCache`, honest and forger
//! identities, a seeded stream of genuine / altered / forged presentations.
//! Oracle: cached verdict == direct verdict; direct verdict == "harness signed
//! exactly this content with the embedded key and the user id derives from it";
//! constructor bounds.

use crate::simkit::shrink::{drop_chunks, shrink_num};
use crate::ev;
use crate::simkit::{CheckDef, Ctx, Rng, RunReport, Tier};
use saorsa_core::NetworkAddress;
use saorsa_core::peer_record::{
    EndpointId, NatType, PeerDHTRecord, PeerEndpoint, SignatureCache, UserId,
};
use saorsa_core::quantum_crypto::ant_quic_integration::{
    MlDsaPublicKey, MlDsaSecretKey,
};
use serde_json::{Value, json};

pub static DEF: CheckDef = CheckDef {
    id: "C09",
    level: "exploration",
    technique: "deterministic component simulation: seeded presentation histories against the real SignatureCache, verdict-equality oracle vs direct verification and a by-construction validity model",
    runs: (3000, 100000),
    generate,
    execute,
    shrink,
    rule: "each run = one cache (capacity drawn from 1..8 or 1000) + 10..120 presentations drawn from {genuine, field mutation, signature/key bit flip, forger-signed with victim id, (id,seq,ts)-collision after/before the genuine record, repeats after eviction} + constructor-bound probes; non-trivial = at least one forged or altered presentation followed a genuine one into the same cache; distinct = distinct hash of the (kind, direct verdict, cached verdict) event log",
    real_components: &["PeerDHTRecord (sign/verify/content_hash/validate_inputs)", "SignatureCache", "ML-DSA-65 (release path, debug_assertions off)"],
    stubbed_components: &[],
    assumptions: &["identities come from a fixed committed pool of 12 ML-DSA-65 key pairs; signing randomness (hedged ML-DSA) is not seeded: signature bytes are opaque, no branch depends on them", "HashMap eviction order in SignatureCache is seeded through the getrandom interposer"],
};

const FIELDS: &[&str] = &[
    "user_id", "public_key", "sequence", "name", "name_none", "ep_addr", "ep_nat", "ep_coord",
    "ep_device", "ep_updated", "ep_id", "ep_extra", "timestamp", "ttl", "version",
];

fn generate(seed: u64, tier: Tier) -> Value {
    let mut r = Rng::new(seed);
    let honest = r.range(2, 4);
    let forgers = r.range(1, 2);
    let cap = if r.chance(1, 5) { 1000 } else { r.range(1, 8) };
    let nbases = r.range(2, 6);
    let mut bases = Vec::new();
    for _ in 0..nbases {
        bases.push(json!({
            "owner": r.below(honest),
            "seq": *r.pick(&[0u64, 1, 2, 7, u64::MAX >> 11]),
            "ts": 1_700_000_000u64 + r.below(4),
            "name": r.below(3),
            "eps": r.range(1, 3),
            "ttl": *r.pick(&[1u64, 300, 86_400]),
        }));
    }
    let nsteps = match tier {
        Tier::Quick => r.range(10, 60),
        Tier::Thorough => r.range(10, 120),
    };
    let mut steps = Vec::new();
    for _ in 0..nsteps {
        let base = r.below(nbases);
        let k = r.below(100);
        let st = if k < 30 {
            json!({"kind": "genuine", "base": base})
        } else if k < 50 {
            json!({"kind": "mutate", "base": base, "field": *r.pick(FIELDS)})
        } else if k < 58 {
            json!({"kind": "flip_sig", "base": base, "pos": r.below(3309), "bit": r.below(8)})
        } else if k < 64 {
            json!({"kind": "flip_key", "base": base, "pos": r.below(1952), "bit": r.below(8)})
        } else if k < 74 {
            json!({"kind": "forger_signed", "base": base, "forger": r.below(forgers)})
        } else if k < 79 {
            json!({"kind": "forger_own_id", "base": base, "forger": r.below(forgers)})
        } else if k < 84 {
            // byte-level change of the user id, then re-signed by the key's owner: the
            // signature is genuine, only the id no longer derives from the embedded key
            json!({"kind": "id_byte_resigned", "base": base, "pos": r.below(32), "bit": r.below(8)})
        } else if k < 93 {
            json!({"kind": "collide", "base": base, "what": *r.pick(&["name", "endpoints", "ttl", "both"])})
        } else {
            json!({"kind": "resigned_collide", "base": base, "what": *r.pick(&["name", "endpoints"])})
        };
        steps.push(st);
    }
    let mut bounds = Vec::new();
    for _ in 0..r.range(0, 6) {
        bounds.push(json!({
            "name_len": *r.pick(&[-1i64, 0, 1, 255, 256, 300]),
            "eps": *r.pick(&[0u64, 1, 16, 17]),
            "ttl": *r.pick(&[0u64, 1, 86_400, 86_401, u32::MAX as u64]),
        }));
    }
    json!({"property": "C09", "seed": seed, "key_base": r.below(12), "cap": cap, "honest": honest, "forgers": forgers,
           "bases": bases, "steps": steps, "bounds": bounds})
}

fn shrink(sc: &Value) -> Vec<Value> {
    let mut v = drop_chunks(sc, "steps");
    v.extend(drop_chunks(sc, "bounds"));
    v.extend(shrink_num(sc, "cap", 1));
    v
}

struct Ident {
    pk: MlDsaPublicKey,
    sk: MlDsaSecretKey,
    id: UserId,
}

fn endpoint(tag: u64, n: u64) -> PeerEndpoint {
    let mut uuid = [0u8; 16];
    uuid[..8].copy_from_slice(&tag.to_le_bytes());
    uuid[8..].copy_from_slice(&n.to_le_bytes());
    let addr: NetworkAddress =
        std::net::SocketAddr::from(([10, (tag % 200) as u8, n as u8, 1], 9000 + n as u16)).into();
    let mut ep = PeerEndpoint::new(
        EndpointId::from_uuid(uuid::Uuid::from_bytes(uuid)),
        addr,
        NatType::FullCone,
        vec![format!("coord-{tag}")],
        Some(format!("dev-{n}")),
    );
    ep.last_updated = 1_700_000_000;
    ep
}

fn execute(sc: &Value) -> RunReport {
    let mut ctx = Ctx::new();
    let honest = sc["honest"].as_u64().unwrap_or(2);
    let forgers = sc["forgers"].as_u64().unwrap_or(1);
    let cap = sc["cap"].as_u64().unwrap_or(4) as usize;
    let mut idents = Vec::new();
    let key_base = sc["key_base"].as_u64().unwrap_or(0) as usize;
    for k in 0..(honest + forgers) as usize {
        let (pk, sk) = crate::simkit::keys::keypair(key_base + k);
        let id = UserId::from_public_key(&pk);
        idents.push(Ident { pk, sk, id });
    }
    // bases
    let empty = vec![];
    let mut bases: Vec<PeerDHTRecord> = Vec::new();
    for (bi, b) in sc["bases"].as_array().unwrap_or(&empty).iter().enumerate() {
        let owner = &idents[(b["owner"].as_u64().unwrap_or(0) % honest) as usize];
        let eps: Vec<PeerEndpoint> = (0..b["eps"].as_u64().unwrap_or(1).clamp(1, 16))
            .map(|n| endpoint(bi as u64, n))
            .collect();
        let name = match b["name"].as_u64().unwrap_or(0) {
            0 => None,
            1 => Some(format!("user-{bi}")),
            _ => Some("x".repeat(255)),
        };
        let mut rec = PeerDHTRecord::new(
            owner.id.clone(),
            owner.pk.clone(),
            b["seq"].as_u64().unwrap_or(1),
            name,
            eps,
            b["ttl"].as_u64().unwrap_or(300) as u32,
        )
        .expect("in-bounds base record");
        rec.timestamp = b["ts"].as_u64().unwrap_or(1_700_000_000);
        rec.sign(&owner.sk).expect("sign");
        bases.push(rec);
    }
    let mut cache = SignatureCache::new(cap);
    let mut genuine_seen = std::collections::BTreeSet::new();
    let mut presented = 0u64;
    for (si, st) in sc["steps"].as_array().unwrap_or(&empty).iter().enumerate() {
        if bases.is_empty() {
            break;
        }
        let bidx = (st["base"].as_u64().unwrap_or(0) as usize) % bases.len();
        let base = &bases[bidx];
        let kind = st["kind"].as_str().unwrap_or("genuine");
        let mut rec = base.clone();
        let mut expected_valid = true;
        let mut sub = String::new();
        match kind {
            "genuine" => {}
            "mutate" => {
                let f = st["field"].as_str().unwrap_or("name");
                sub = f.to_string();
                expected_valid = false;
                match f {
                    "user_id" => {
                        let other = idents.iter().find(|i| i.id != rec.user_id).unwrap();
                        rec.user_id = other.id.clone();
                    }
                    "public_key" => {
                        let other = idents.iter().find(|i| i.id != rec.user_id).unwrap();
                        rec.public_key = other.pk.clone();
                    }
                    "sequence" => rec.sequence_number = rec.sequence_number.wrapping_add(1),
                    "name" => rec.name = Some(format!("evil-{si}")),
                    "name_none" => {
                        if rec.name.is_none() {
                            rec.name = Some("a".into())
                        } else {
                            rec.name = None
                        }
                    }
                    "ep_addr" => {
                        rec.endpoints[0].external_address =
                            std::net::SocketAddr::from(([66, 6, 6, 6], 666)).into()
                    }
                    "ep_nat" => rec.endpoints[0].nat_type = NatType::Symmetric,
                    "ep_coord" => rec.endpoints[0].coordinator_nodes.push("evil".into()),
                    "ep_device" => rec.endpoints[0].device_info = None,
                    "ep_updated" => rec.endpoints[0].last_updated += 1,
                    "ep_id" => {
                        rec.endpoints[0].endpoint_id =
                            EndpointId::from_uuid(uuid::Uuid::from_bytes([0xEE; 16]))
                    }
                    "ep_extra" => {
                        let e = endpoint(999, rec.endpoints.len() as u64);
                        rec.endpoints.push(e)
                    }
                    "timestamp" => rec.timestamp += 1,
                    "ttl" => rec.ttl = rec.ttl.wrapping_add(1),
                    _ => rec.version = rec.version.wrapping_add(1),
                }
            }
            "flip_sig" => {
                let pos = (st["pos"].as_u64().unwrap_or(0) as usize) % rec.signature.0.len();
                rec.signature.0[pos] ^= 1 << (st["bit"].as_u64().unwrap_or(0) % 8);
                expected_valid = false;
            }
            "flip_key" => {
                let pos = (st["pos"].as_u64().unwrap_or(0) as usize) % rec.public_key.0.len();
                rec.public_key.0[pos] ^= 1 << (st["bit"].as_u64().unwrap_or(0) % 8);
                expected_valid = false;
            }
            "forger_signed" => {
                // forger's key + forger's signature, victim's user id
                let f = &idents[(honest + st["forger"].as_u64().unwrap_or(0) % forgers) as usize];
                rec.public_key = f.pk.clone();
                rec.name = Some(format!("forged-{si}"));
                rec.sign(&f.sk).expect("sign");
                expected_valid = false;
            }
            "forger_own_id" => {
                // a forger's fully self-consistent record is valid (its own identity)
                let f = &idents[(honest + st["forger"].as_u64().unwrap_or(0) % forgers) as usize];
                rec.public_key = f.pk.clone();
                rec.user_id = f.id.clone();
                rec.sign(&f.sk).expect("sign");
                expected_valid = true;
            }
            "id_byte_resigned" => {
                let pos = (st["pos"].as_u64().unwrap_or(0) as usize) % 32;
                rec.user_id.hash[pos] ^= 1 << (st["bit"].as_u64().unwrap_or(0) % 8);
                let owner = idents.iter().find(|i| i.id == base.user_id).unwrap();
                rec.sign(&owner.sk).expect("sign");
                sub = format!("byte{}", if pos < 8 { "0-7" } else { "8-31" });
                expected_valid = false;
            }
            "collide" | "resigned_collide" => {
                // same (user id, sequence, timestamp), different content
                let what = st["what"].as_str().unwrap_or("name");
                sub = what.to_string();
                if what == "name" || what == "both" {
                    rec.name = Some(format!("collide-{si}"));
                }
                if what == "endpoints" || what == "both" {
                    rec.endpoints[0].external_address =
                        std::net::SocketAddr::from(([6, 6, 6, (si % 250) as u8], 6000)).into();
                }
                if what == "ttl" {
                    rec.ttl = if rec.ttl == 300 { 301 } else { 300 };
                }
                if kind == "collide" {
                    expected_valid = false; // signature of the genuine record kept
                } else {
                    // owner genuinely signs a second record with the same triple
                    let owner = idents.iter().find(|i| i.id == rec.user_id).unwrap();
                    rec.sign(&owner.sk).expect("sign");
                    expected_valid = true;
                }
            }
            _ => {}
        }
        let direct = rec.verify_signature().is_ok();
        let cached = cache.verify_cached(&rec).is_ok();
        presented += 1;
        ctx.ops += 1;
        let label = if sub.is_empty() { kind.to_string() } else { format!("{kind}:{sub}") };
        ev!("step {si} base={bidx} kind={label} expected={expected_valid} direct={direct} cached={cached}");
        if kind == "genuine" {
            genuine_seen.insert(bidx);
        } else if genuine_seen.contains(&bidx) {
            ctx.nontrivial = true;
            ctx.probe("altered_after_genuine_same_cache");
        }
        if cached != direct {
            ctx.probe("cache_disagreed");
            ctx.violate(
                "C09.cache.verdict_differs",
                format!("{label}:{}", if cached { "cached_ok_direct_err" } else { "cached_err_direct_ok" }),
                format!("step {si}: verify_cached={cached} but verify_signature={direct} for a `{label}` presentation of base {bidx} (cache capacity {cap})"),
            );
        }
        if direct && !expected_valid {
            ctx.violate(
                "C09.verify.accepts_invalid",
                label.clone(),
                format!("step {si}: verify_signature accepted a `{label}` record the harness did not sign as presented / whose user id is not derived from the embedded key"),
            );
        }
        if !direct && expected_valid {
            ctx.violate(
                "C09.verify.rejects_genuine",
                label.clone(),
                format!("step {si}: verify_signature rejected a genuinely signed `{label}` record"),
            );
        }
    }
    if presented as usize > cap {
        ctx.probe("cache_eviction_possible");
    }
    // constructor bounds
    for (bi, b) in sc["bounds"].as_array().unwrap_or(&empty).iter().enumerate() {
        let nl = b["name_len"].as_i64().unwrap_or(-1);
        let eps_n = b["eps"].as_u64().unwrap_or(1);
        let ttl = b["ttl"].as_u64().unwrap_or(300);
        let name = if nl < 0 { None } else { Some("n".repeat(nl as usize)) };
        let eps: Vec<PeerEndpoint> = (0..eps_n).map(|n| endpoint(500 + bi as u64, n)).collect();
        let id = &idents[0];
        let res = PeerDHTRecord::new(id.id.clone(), id.pk.clone(), 1, name, eps, ttl as u32);
        let in_bounds = (nl < 0 || (1..=255).contains(&nl))
            && (1..=16).contains(&eps_n)
            && (1..=86_400).contains(&ttl);
        ctx.ops += 1;
        ev!("bounds {bi} name_len={nl} eps={eps_n} ttl={ttl} ok={}", res.is_ok());
        if res.is_ok() && !in_bounds {
            ctx.violate(
                "C09.bounds.accepts_out_of_range",
                format!("name_len={nl},eps={eps_n},ttl={ttl}"),
                "constructor accepted a record outside the documented bounds",
            );
        }
        if res.is_err() && in_bounds {
            ctx.violate(
                "C09.bounds.rejects_in_range",
                format!("name_len={nl},eps={eps_n},ttl={ttl}"),
                "constructor refused a record inside the documented bounds",
            );
        }
    }
    ctx.finish()
}
