//! C18 — stored keys open only with the current password; tampering is detected.
//!
//! SIM-STORE on the encrypted key store: seeded histories of initialise / store /
//! retrieve (current, previous, random password) / change password / clear
//! cache / reopen; crash images at the four steps of the atomic file replace
//! (plus torn temporary files); single-byte corruption of the store file.

use crate::ev;
use crate::simkit::shrink::drop_chunks;
use crate::simkit::{CheckDef, Ctx, Rng, RunReport, Scratch, Tier, sim_runtime};
use crate::simstore::{self, Capture, CaptureRef, Files};
use saorsa_core::encrypted_key_storage::{EncryptedKeyStorageManager, SecurityLevel};
use saorsa_core::key_derivation::MasterSeed;
use saorsa_core::secure_memory::SecureString;
use serde_json::{Value, json};
use std::cell::RefCell;
use std::collections::BTreeMap;
use std::rc::Rc;

pub static DEF: CheckDef = CheckDef {
    id: "C18",
    level: "fault_enumeration",
    technique: "deterministic storage simulation of the key store: seeded histories against a password/seed model; every crash point of the atomic file replace reached by the history (plus torn temporary files) is reopened; I/O errors injected into the file replace with the same manager used afterwards; single-byte corruption of the store file at every (thorough) or 24 drawn (quick) positions",
    runs: (800, 8000),
    generate,
    execute,
    shrink,
    rule: "each run = history of 3..15 operations from {store seed (1..3 seed ids), retrieve with current / previous / random password or the password of a failed change, change password, clear cache, reopen, store/change with a wrong password; one store in five and one change in three with an I/O error injected at one of the three fallible steps of the file replace} after initialisation; all crash points of encrypt_and_store reached by the history are captured and every image is opened with the passwords of the version it must equal; then every byte (thorough) / 24 drawn bytes (quick) of the final file is flipped (2 patterns) and the store reopened; non-trivial = at least one wrong-password retrieval after a successful store in the same process and one crash image checked; distinct = distinct hash of the operation/verdict log",
    real_components: &["EncryptedKeyStorageManager (initialize, store_master_seed, retrieve_master_seed, change_password, clear_cache, encrypt_and_store, load_and_decrypt)", "Argon2id (SecurityLevel::Fast) and ChaCha20-Poly1305 as shipped", "real file in a scratch directory"],
    stubbed_components: &[],
    assumptions: &["salts, nonces and seeds handed to the store come from the scenario; salts/nonces generated inside the store use OS randomness (opaque)", "process-death semantics for the file replace"],
};

fn generate(seed: u64, tier: Tier) -> Value {
    let mut r = Rng::new(seed);
    let n = r.range(3, if tier == Tier::Quick { 10 } else { 15 });
    let mut ops = Vec::new();
    for _ in 0..n {
        let k = r.below(100);
        let op = if k < 25 {
            json!({"op": "store", "id": r.below(3), "seed": r.below(1 << 40), "fail": if r.chance(1, 5) { json!(r.below(3)) } else { Value::Null }})
        } else if k < 60 {
            json!({"op": "retrieve", "id": r.below(3), "pw": *r.pick(&["current", "current", "previous", "random", "random", "failed_change"])})
        } else if k < 72 {
            // one change in four re-seals the store under the SAME password (salt rotation)
            json!({"op": "change", "fail": if r.chance(1, 3) { json!(r.below(3)) } else { Value::Null }, "same": r.chance(1, 4)})
        } else if k < 80 {
            json!({"op": "clear_cache"})
        } else if k < 88 {
            json!({"op": "reopen"})
        } else if k < 94 {
            json!({"op": "store_wrong_pw", "id": r.below(3), "seed": r.below(1 << 40)})
        } else {
            json!({"op": "change_wrong_pw"})
        };
        let follow = op["op"] == "change" && !op["fail"].is_null() && r.chance(2, 3);
        let reseal = op["op"] == "change" && op["same"] == true;
        ops.push(op);
        if follow { ops.push(json!({"op": "retrieve", "id": r.below(3), "pw": "failed_change"})); }
        if reseal {
            // what was sealed must open again once nothing of this session is left in memory
            ops.push(json!({"op": *r.pick(&["clear_cache", "reopen", "store"]), "id": r.below(3), "seed": r.below(1 << 40), "fail": Value::Null}));
            ops.push(json!({"op": *r.pick(&["clear_cache", "reopen"])}));
            for id in 0..3 { ops.push(json!({"op": "retrieve", "id": id, "pw": "current"})); }
        }
    }
    json!({"property": "C18", "seed": seed, "ops": ops,
           "corrupt_positions": if tier == Tier::Quick { 24 } else { 0 }})
}

fn shrink(sc: &Value) -> Vec<Value> {
    let mut v = drop_chunks(sc, "ops");
    if sc["corrupt_positions"].as_u64() != Some(1) {
        let mut c = sc.clone();
        c["corrupt_positions"] = json!(1);
        v.push(c);
    }
    v
}

fn pw(n: u64) -> SecureString {
    // passes validate_password: >= 12 chars, four character classes, no common word, no sequence
    SecureString::from_plain_str(&format!("Zk9!fQ7w#Lm{}x", n * 7 + 3)).expect("secure string")
}

fn seed_bytes(v: u64) -> Vec<u8> {
    let mut r = Rng::new(v ^ 0x5eed);
    r.bytes(64)
}

#[derive(Clone)]
struct Version {
    file: Vec<u8>,
    password: u64,
    seeds: BTreeMap<String, Vec<u8>>,
}

fn execute(sc: &Value) -> RunReport {
    let seed = sc["seed"].as_u64().unwrap_or(0);
    let ops: Vec<Value> = sc["ops"].as_array().cloned().unwrap_or_default();
    let scratch = Scratch::new("c18");
    let dir = scratch.path.join("ks");
    std::fs::create_dir_all(&dir).expect("dir");
    let path = dir.join("keys.enc");
    let cap: CaptureRef = Rc::new(RefCell::new(Capture { dir: dir.clone(), max_images: 64, injectable: ["keystore.before_tmp", "keystore.tmp_created", "keystore.tmp_written"].iter().map(|s| s.to_string()).collect(), ..Default::default() }));
    simstore::install(&cap);
    let rt = sim_runtime(seed);
    let mut ctx = Ctx::new();
    let mut rng = Rng::new(seed ^ 0xC18);
    rt.block_on(async {
        let mut mgr = EncryptedKeyStorageManager::new(&path, SecurityLevel::Fast).expect("manager");
        let mut cur_pw = 0u64;
        let mut next_pw = 1u64;
        let mut prev_pws: Vec<u64> = Vec::new();
        let mut failed_pws: Vec<u64> = Vec::new(); // new passwords of change_password calls that failed
        let mut seeds: BTreeMap<String, Vec<u8>> = BTreeMap::new();
        let mut versions: Vec<Version> = Vec::new(); // every file version that existed at an acknowledgement
        let mut stored_in_this_process = false;
        let mut wrong_after_store = false;

        // ---- images of one mutating operation are checked against the versions before/after it
        let check_images = |images: &[simstore::Image], versions: &[Version], ctx: &mut Ctx, opname: &str| -> Vec<(Files, usize)> {
            let mut out = Vec::new();
            for img in images {
                ctx.probe("crash_images");
                let main = img.files.get("keys.enc");
                let vidx = match main {
                    None => None,
                    Some(b) => versions.iter().rposition(|v| &v.file == b),
                };
                match (main, vidx) {
                    (None, _) if versions.is_empty() || versions.len() == 1 => {} // before the first version existed
                    (Some(_), Some(i)) => out.push((img.files.clone(), i)),
                    _ => {
                        ctx.violate("C18.crash.main_file_not_a_version", format!("{}:{opname}", img.label), format!("crash image at {} during {opname}: keys.enc is neither the old nor the new complete file ({} bytes)", img.label, main.map(|b| b.len()).unwrap_or(0)));
                    }
                }
            }
            out
        };

        // ---- initialise
        {
            cap.borrow_mut().images.clear();
            cap.borrow_mut().enabled = true;
            let r = mgr.initialize(&pw(cur_pw)).await;
            cap.borrow_mut().enabled = false;
            if let Err(e) = r {
                ctx.harness_error = Some(format!("initialize failed: {e}"));
                return;
            }
            versions.push(Version { file: std::fs::read(&path).unwrap_or_default(), password: cur_pw, seeds: seeds.clone() });
            ev!("init ok file={} bytes", versions[0].file.len());
        }

        let mut pending_image_checks: Vec<(Files, usize)> = Vec::new();
        for (idx, op) in ops.iter().enumerate() {
            let kind = op["op"].as_str().unwrap_or("");
            ctx.ops += 1;
            match kind {
                "store" | "store_wrong_pw" => {
                    let id = format!("seed{}", op["id"].as_u64().unwrap_or(0));
                    let bytes = seed_bytes(op["seed"].as_u64().unwrap_or(0) + idx as u64 * 1000);
                    let ms = MasterSeed::from_entropy(&bytes).expect("seed");
                    let wrong = kind == "store_wrong_pw";
                    let p = if wrong { pw(900 + idx as u64) } else { pw(cur_pw) };
                    cap.borrow_mut().images.clear();
                    cap.borrow_mut().enabled = true;
                    { let mut c = cap.borrow_mut(); c.injected = None; c.fail_at = if wrong { None } else { op["fail"].as_u64().map(|k| c.callbacks + k) }; }
                    let r = mgr.store_master_seed(&id, &ms, &p).await;
                    cap.borrow_mut().enabled = false;
                    let injected = { let mut c = cap.borrow_mut(); c.fail_at = None; c.injected.take() };
                    ev!("#{idx} {kind} {id} -> {}", if r.is_ok() { "ok" } else { "err" });
                    let images = cap.borrow().images.clone();
                    if wrong {
                        if r.is_ok() {
                            ctx.violate("C18.store.wrong_password_accepted", "", format!("op #{idx}: store_master_seed succeeded with a password that is not the current one"));
                            seeds.insert(id.clone(), ms.seed_material().to_vec());
                        }
                        let now = std::fs::read(&path).unwrap_or_default();
                        if r.is_err() && versions.last().map(|v| v.file != now).unwrap_or(false) {
                            ctx.violate("C18.store.failed_store_changed_file", "", format!("op #{idx}: a refused store changed the file"));
                        }
                    } else {
                        match r {
                            Ok(()) if injected.is_some() => {
                                ctx.violate("C18.ioerr.failure_reported_as_success", "store", format!("op #{idx}: the file update failed at {} and store_master_seed returned Ok", injected.clone().unwrap_or_default()));
                            }
                            Err(_) if injected.is_some() => {
                                ctx.fault("io_error_injected");
                                let now = std::fs::read(&path).unwrap_or_default();
                                if versions.last().map(|v| v.file != now).unwrap_or(false) {
                                    ctx.violate("C18.ioerr.failed_update_changed_file", "store", format!("op #{idx}: store failed at {} yet the store file changed", injected.clone().unwrap_or_default()));
                                }
                            }
                            Ok(()) => {
                                seeds.insert(id.clone(), ms.seed_material().to_vec());
                                stored_in_this_process = true;
                                versions.push(Version { file: std::fs::read(&path).unwrap_or_default(), password: cur_pw, seeds: seeds.clone() });
                                pending_image_checks.extend(check_images(&images, &versions, &mut ctx, "store"));
                            }
                            Err(e) => {
                                ctx.violate("C18.store.right_password_refused", "", format!("op #{idx}: store with the current password failed: {e}"));
                            }
                        }
                    }
                }
                "retrieve" => {
                    let id = format!("seed{}", op["id"].as_u64().unwrap_or(0));
                    let which = op["pw"].as_str().unwrap_or("current");
                    let (p, is_current) = match which {
                        "current" => (pw(cur_pw), true),
                        "previous" if !prev_pws.is_empty() => (pw(*rng.pick(&prev_pws)), false),
                        "failed_change" if !failed_pws.is_empty() => { ctx.probe("retrieve_with_password_of_failed_change"); (pw(*rng.pick(&failed_pws)), false) }
                        _ => (pw(500 + idx as u64), false),
                    };
                    let r = mgr.retrieve_master_seed(&id, &p).await;
                    let expect = if is_current { seeds.get(&id) } else { None };
                    let situation = format!("{}:{}", which, if stored_in_this_process { "same_process_after_store" } else { "fresh_process" });
                    ev!("#{idx} retrieve {id} pw={which} -> {}", if r.is_ok() { "ok" } else { "err" });
                    if !is_current && stored_in_this_process && seeds.contains_key(&id) {
                        wrong_after_store = true;
                        ctx.probe("wrong_password_after_store_same_process");
                    }
                    match (r, expect) {
                        (Ok(got), Some(want)) => {
                            if got.seed_material() != &want[..] {
                                ctx.violate("C18.retrieve.wrong_bytes", situation, format!("op #{idx}: retrieved seed differs from the stored one"));
                            }
                        }
                        (Ok(_), None) => {
                            if is_current {
                                ctx.violate("C18.retrieve.unknown_seed_returned", situation, format!("op #{idx}: a seed id that was never stored was returned"));
                            } else {
                                ctx.violate("C18.retrieve.wrong_password_accepted", situation, format!("op #{idx}: retrieve_master_seed({id}) returned key material for a password ({which}) that is not the current one"));
                            }
                        }
                        (Err(e), Some(_)) => {
                            ctx.violate("C18.retrieve.right_password_refused", situation, format!("op #{idx}: current password refused: {e}"));
                        }
                        (Err(_), None) => {}
                    }
                }
                "change" | "change_wrong_pw" => {
                    let wrong = kind == "change_wrong_pw";
                    let old = if wrong { pw(700 + idx as u64) } else { pw(cur_pw) };
                    let same = !wrong && op["same"].as_bool().unwrap_or(false);
                    let newn = if same { cur_pw } else { next_pw };
                    if same { ctx.probe("resealed_under_same_password"); }
                    cap.borrow_mut().images.clear();
                    cap.borrow_mut().enabled = true;
                    { let mut c = cap.borrow_mut(); c.injected = None; c.fail_at = if wrong { None } else { op["fail"].as_u64().map(|k| c.callbacks + k) }; }
                    let r = mgr.change_password(&old, &pw(newn)).await;
                    cap.borrow_mut().enabled = false;
                    let injected = { let mut c = cap.borrow_mut(); c.fail_at = None; c.injected.take() };
                    ev!("#{idx} {kind} -> {}", if r.is_ok() { "ok" } else { "err" });
                    let images = cap.borrow().images.clone();
                    match (r, wrong) {
                        (Ok(()), false) if injected.is_some() => {
                            ctx.violate("C18.ioerr.failure_reported_as_success", "change_password", format!("op #{idx}: the file update failed at {} and change_password returned Ok", injected.clone().unwrap_or_default()));
                        }
                        (Err(_), false) if injected.is_some() => {
                            // the old file stays: the old password remains the current one, the new one never took effect
                            ctx.fault("io_error_injected");
                            if !same { failed_pws.push(newn); }
                            next_pw += 1;
                            let now = std::fs::read(&path).unwrap_or_default();
                            if versions.last().map(|v| v.file != now).unwrap_or(false) {
                                ctx.violate("C18.ioerr.failed_update_changed_file", "change_password", format!("op #{idx}: change_password failed at {} yet the store file changed", injected.clone().unwrap_or_default()));
                            }
                        }
                        (Ok(()), false) => {
                            if !same { prev_pws.push(cur_pw); }
                            cur_pw = newn;
                            next_pw += 1;
                            versions.push(Version { file: std::fs::read(&path).unwrap_or_default(), password: cur_pw, seeds: seeds.clone() });
                            pending_image_checks.extend(check_images(&images, &versions, &mut ctx, "change_password"));
                            ctx.probe("password_changed");
                        }
                        (Ok(()), true) => {
                            ctx.violate("C18.change.wrong_old_password_accepted", "", format!("op #{idx}: change_password succeeded with a wrong old password"));
                            prev_pws.push(cur_pw);
                            cur_pw = newn;
                            next_pw += 1;
                        }
                        (Err(e), false) => {
                            ctx.violate("C18.change.right_password_refused", "", format!("op #{idx}: change_password with the current password failed: {e}"));
                        }
                        (Err(_), true) => {}
                    }
                }
                "clear_cache" => {
                    let _ = mgr.clear_cache();
                    ev!("#{idx} clear_cache");
                }
                "reopen" => {
                    mgr = EncryptedKeyStorageManager::new(&path, SecurityLevel::Fast).expect("manager");
                    stored_in_this_process = false;
                    ev!("#{idx} reopen");
                    ctx.probe("reopen");
                }
                _ => {}
            }
        }
        if wrong_after_store && !pending_image_checks.is_empty() {
            ctx.nontrivial = true;
        }

        // ---- crash images: the main file equals a version; it must open with that version's password
        let imgdir = scratch.path.join("img");
        for (n, (files, vidx)) in pending_image_checks.iter().enumerate() {
            if n > 24 { break; }
            simstore::materialise(files, &imgdir);
            let v = &versions[*vidx];
            let m = EncryptedKeyStorageManager::new(imgdir.join("keys.enc"), SecurityLevel::Fast).expect("manager");
            for (id, want) in &v.seeds {
                match m.retrieve_master_seed(id, &pw(v.password)).await {
                    Ok(got) if got.seed_material() == &want[..] => {}
                    Ok(_) => ctx.violate("C18.crash.image_returns_other_bytes", "", format!("crash image (version {vidx}): seed {id} differs")),
                    Err(e) => ctx.violate("C18.crash.image_does_not_open", "", format!("crash image equal to version {vidx} does not open with that version's password: {e}")),
                }
            }
            // a torn temporary file next to it must not matter
            ctx.probe("crash_images_opened");
        }

        // ---- single-byte corruption of the final file, in place: the damaged file sits in a copy of
        //      the whole directory the history left behind (temporary files, anything else the store keeps)
        let final_file = std::fs::read(&path).unwrap_or_default();
        if !final_file.is_empty() && !seeds.is_empty() {
            let want_positions = sc["corrupt_positions"].as_u64().unwrap_or(24) as usize;
            let positions: Vec<usize> = if want_positions == 0 || want_positions >= final_file.len() {
                (0..final_file.len()).collect()
            } else {
                // half of the drawn positions fall into the first 48 bytes (version, length prefixes, salt, nonce)
                let mut p: Vec<usize> = (0..want_positions).map(|j| if j % 2 == 0 { rng.usize_below(final_file.len().min(48)) } else { rng.usize_below(final_file.len()) }).collect();
                p.push(0);
                p.sort();
                p.dedup();
                p
            };
            let dir_image = simstore::read_dir_image(path.parent().expect("store dir"));
            let file_name = path.file_name().and_then(|n| n.to_str()).unwrap_or("keys.enc").to_string();
            if dir_image.len() > 1 { ctx.probe("corruption_with_sibling_files"); }
            let cdir = scratch.path.join("corrupt");
            let cpath = cdir.join(&file_name);
            for pos in positions {
                for pat in [0x01u8, 0x80u8] {
                    // the second pattern for the header region and every fourth byte beyond it (cost: one key
                    // derivation per retrieve; a run must stay well inside the watchdog also on a loaded machine)
                    if pat == 0x80 && pos >= 48 && pos % 4 != 0 { continue; }
                    let mut b = final_file.clone();
                    b[pos] ^= pat;
                    simstore::materialise(&dir_image, &cdir);
                    std::fs::write(&cpath, &b).expect("write corrupted");
                    let m = EncryptedKeyStorageManager::new(&cpath, SecurityLevel::Fast).expect("manager");
                    ctx.fault("byte_flip");
                    let mut opened = false;
                    for (j, (id, want)) in seeds.iter().enumerate() {
                        if j > 0 && pos >= 64 { break; } // beyond the header every seed id shares one authenticated blob
                        match m.retrieve_master_seed(id, &pw(cur_pw)).await {
                            Err(_) => { ctx.probe("corruption_rejected"); break; }
                            Ok(got) if got.seed_material() == &want[..] => { opened = true; ctx.probe("corruption_harmless_byte"); }
                            Ok(_) => {
                                ctx.violate("C18.corrupt.different_key_material", format!("offset_class={}", pos * 8 / final_file.len().max(1)), format!("flipping byte {pos} (^{pat:#x}) of the {}-byte store file made retrieve return DIFFERENT key material for {id}", final_file.len()));
                                break;
                            }
                        }
                    }
                    let _ = opened;
                    // no other password opens the damaged store either (one earlier password per position)
                    if pat == 0x01 && (pos < 64 || pos % 8 == 0) {
                        if let Some(old) = prev_pws.last().copied().filter(|o| *o != cur_pw) {
                            let m2 = EncryptedKeyStorageManager::new(&cpath, SecurityLevel::Fast).expect("manager");
                            let id = seeds.keys().next().cloned().unwrap_or_default();
                            if m2.retrieve_master_seed(&id, &pw(old)).await.is_ok() {
                                ctx.violate("C18.corrupt.opens_with_other_password", format!("offset_class={}", pos * 8 / final_file.len().max(1)), format!("after flipping byte {pos} of the store file a PREVIOUS password retrieves a seed"));
                            }
                            ctx.probe("corruption_previous_password_tried");
                        }
                    }
                }
            }
        }
    });
    drop(rt);
    simstore::uninstall();
    for k in ["resealed_under_same_password", "retrieve_with_password_of_failed_change", "crash_images", "crash_images_opened", "wrong_password_after_store_same_process", "password_changed", "reopen", "corruption_rejected", "corruption_harmless_byte"] {
        ctx.probes.entry(k.to_string()).or_insert(0);
    }
    let reached = cap.borrow().reached.clone();
    for (k, v) in reached {
        ctx.probe_n(&format!("point:{k}"), v);
    }
    drop(scratch);
    ctx.finish()
}
