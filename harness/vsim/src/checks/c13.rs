//! C13 — per-subnet and per-ASN admission caps are never exceeded; slots are returned.
//!
//! SIM-COMP against three admission surfaces: the `IPDiversityEnforcer` itself,
//! `DhtCoreEngine::add_node / evict_node / handle_node_failure` with parseable
//! addresses, and `BootstrapManager::add_peer`. Model = multiset of admitted
//! addresses with their attributes; the cap function per level is exactly the
//! one the statement gives. (The connect path of a running node is monitored in
//! the network simulation.)

use crate::ev;
use crate::simkit::shrink::drop_chunks;
use crate::simkit::{CheckDef, Ctx, Rng, RunReport, Scratch, Tier, sim_runtime};
use saorsa_core::{BootstrapConfig, BootstrapManager};
use saorsa_core::dht::core_engine::{DhtCoreEngine, NodeCapacity, NodeId, NodeInfo};
use saorsa_core::dht::geographic_routing::GeographicRegion;
use saorsa_core::dht::routing_maintenance::EvictionReason;
use saorsa_core::rate_limit::JoinRateLimiterConfig;
use saorsa_core::security::{GeoInfo, GeoProvider, IPDiversityConfig, IPDiversityEnforcer};
use serde_json::{Value, json};
use std::collections::BTreeMap;
use std::net::{IpAddr, Ipv4Addr, Ipv6Addr, SocketAddr};
use std::sync::Arc;
use std::time::{Duration, SystemTime};

use super::c02::id_in_bucket;

pub static DEF: CheckDef = CheckDef {
    id: "C13",
    level: "exploration",
    technique: "deterministic component simulation of the admission gates: seeded histories of analyse/add/remove/evict/fail/set-network-size against a multiset model with the stated cap function; counters read back through accessors after every operation; plus a connect-path monitor in the network simulation",
    runs: (6000, 200000),
    generate,
    execute,
    shrink,
    rule: "each run = one surface (enforcer / core engine / bootstrap manager) + one cap configuration (default, testnet, permissive, random small caps) + 10..80 operations over IPv4/IPv6 addresses drawn from few prefixes (so /64, /48, /32, /24, /16 and ASN levels collide) with ASN and hosting/VPN attributes from a seeded GeoIP table; engine runs aim several ids at one bucket so that bucket-full insertions happen; non-trivial = at least one refusal and one removal followed by a re-admission attempt; distinct = distinct hash of the operation/verdict log",
    real_components: &["IPDiversityEnforcer (analyze/can_accept/add/remove, unified IPv4/IPv6, dynamic per-IP limit)", "DhtCoreEngine::add_node / evict_node / handle_node_failure", "BootstrapManager::add_peer with ant-quic's bootstrap cache in a scratch directory"],
    stubbed_components: &["GeoIP/ASN provider = table drawn by the PRNG"],
    assumptions: &["below the 50k-entry tracking bound", "join rate limits are configured permissive in bootstrap runs so that only the diversity gate decides"],
};

#[derive(Debug)]
struct TableGeo {
    salt: u64,
}
impl GeoProvider for TableGeo {
    fn lookup(&self, ip: Ipv6Addr) -> GeoInfo {
        let s = ip.segments();
        let h32 = crate::simkit::rng::mix(&[self.salt, s[0] as u64, s[1] as u64]);
        let h48 = crate::simkit::rng::mix(&[self.salt, s[0] as u64, s[1] as u64, s[2] as u64, 48]);
        GeoInfo {
            asn: if h32 % 5 == 0 { None } else { Some(64_500 + (h32 % 3) as u32) },
            country: None,
            is_hosting_provider: h48 % 4 == 0,
            is_vpn_provider: h48 % 7 == 0,
        }
    }
}

fn gen_ip(r: &mut Rng) -> String {
    if r.chance(1, 2) {
        let top = *r.pick(&["2001:db8", "2001:dc8"]);
        format!("{top}:{:x}:{:x}::{:x}", r.below(3), r.below(3), r.below(6) + 1)
    } else {
        format!("{}.{}.{}.{}", *r.pick(&[10u64, 11, 130, 200]), r.below(2), r.below(3), r.below(5) + 1)
    }
}

fn generate(seed: u64, tier: Tier) -> Value {
    let mut r = Rng::new(seed);
    let surface = *r.pick(&["enforcer", "enforcer", "engine", "engine", "bootstrap"]);
    let cfg = *r.pick(&["default", "default", "testnet", "permissive", "small", "small"]);
    let small = json!({"m64": r.range(1, 3), "m48": r.range(1, 5), "m32": r.range(2, 8), "v4_24": r.range(1, 6), "v4_16": r.range(2, 12),
                       "ip_cap": r.range(1, 4), "fraction": *r.pick(&[0.005f64, 0.01, 0.5]), "asn": r.range(1, 6)});
    let n = r.range(10, if tier == Tier::Quick { 60 } else { 80 });
    let hot_bucket = *r.pick(&[0u64, 2, 100, 255]);
    let mut ops = Vec::new();
    let mut added = 0u64;
    for _ in 0..n {
        let k = r.below(100);
        let op = if k < 55 || added == 0 {
            added += 1;
            json!({"op": "add", "ip": gen_ip(&mut r), "port": 9000 + r.below(3), "bucket": if r.chance(2, 3) { hot_bucket } else { r.below(256) }, "salt": r.below(1 << 30)})
        } else if k < 72 {
            json!({"op": "remove", "which": r.below(1000), "how": *r.pick(&["evict", "fail", "direct"])})
        } else if k < 80 {
            json!({"op": "netsize", "size": *r.pick(&[0u64, 1, 100, 200, 399, 400, 1000, 10_000, 100_000])})
        } else if k < 90 {
            json!({"op": "readd", "which": r.below(1000)})
        } else {
            json!({"op": "remove_unknown", "ip": gen_ip(&mut r)})
        };
        ops.push(op);
    }
    json!({"property": "C13", "seed": seed, "surface": surface, "cfg": cfg, "small": small, "geo_salt": r.below(1 << 20), "ops": ops})
}

fn shrink(sc: &Value) -> Vec<Value> {
    drop_chunks(sc, "ops")
}

fn config_of(sc: &Value) -> IPDiversityConfig {
    match sc["cfg"].as_str().unwrap_or("default") {
        "testnet" => IPDiversityConfig::testnet(),
        "permissive" => IPDiversityConfig::permissive(),
        "small" => {
            let s = &sc["small"];
            IPDiversityConfig {
                max_nodes_per_64: s["m64"].as_u64().unwrap_or(1) as usize,
                max_nodes_per_48: s["m48"].as_u64().unwrap_or(3) as usize,
                max_nodes_per_32: s["m32"].as_u64().unwrap_or(10) as usize,
                max_nodes_per_ipv4_32: 1,
                max_nodes_per_ipv4_24: s["v4_24"].as_u64().unwrap_or(3) as usize,
                max_nodes_per_ipv4_16: s["v4_16"].as_u64().unwrap_or(10) as usize,
                max_per_ip_cap: s["ip_cap"].as_u64().unwrap_or(2) as usize,
                max_network_fraction: s["fraction"].as_f64().unwrap_or(0.005),
                max_nodes_per_asn: s["asn"].as_u64().unwrap_or(20) as usize,
                enable_geolocation_check: true,
                min_geographic_diversity: 1,
            }
        }
        _ => IPDiversityConfig::default(),
    }
}

#[derive(Clone, Debug)]
struct Admitted {
    ip: IpAddr,
    id: [u8; 32],
    asn: Option<u32>,
}

fn levels_of(ip: IpAddr, asn: Option<u32>, v4_as_mapped_v6: bool) -> Vec<String> {
    let mut out = Vec::new();
    match ip {
        IpAddr::V6(a) => {
            out.push(format!("v6/64:{}", IPDiversityEnforcer::extract_subnet_prefix(a, 64)));
            out.push(format!("v6/48:{}", IPDiversityEnforcer::extract_subnet_prefix(a, 48)));
            out.push(format!("v6/32:{}", IPDiversityEnforcer::extract_subnet_prefix(a, 32)));
        }
        IpAddr::V4(a) if v4_as_mapped_v6 => return levels_of(IpAddr::V6(a.to_ipv6_mapped()), asn, false),
        IpAddr::V4(a) => {
            let o = a.octets();
            out.push(format!("v4/32:{a}"));
            out.push(format!("v4/24:{}", Ipv4Addr::new(o[0], o[1], o[2], 0)));
            out.push(format!("v4/16:{}", Ipv4Addr::new(o[0], o[1], 0, 0)));
        }
    }
    if let Some(n) = asn {
        out.push(format!("asn:{n}"));
    }
    out
}

fn cap_of(level: &str, cfg: &IPDiversityConfig, netsize: usize, hosting: bool) -> usize {
    let halve = |c: usize| if hosting { std::cmp::max(1, c / 2) } else { c };
    let per_ip = std::cmp::min(cfg.max_per_ip_cap, std::cmp::max(1, (netsize as f64 * cfg.max_network_fraction).floor() as usize));
    if level.starts_with("v6/64") { halve(cfg.max_nodes_per_64) }
    else if level.starts_with("v6/48") { halve(cfg.max_nodes_per_48) }
    else if level.starts_with("v6/32") { halve(cfg.max_nodes_per_32) }
    else if level.starts_with("v4/32") { halve(per_ip) }
    else if level.starts_with("v4/24") { halve(std::cmp::min(cfg.max_nodes_per_ipv4_24, per_ip.saturating_mul(3))) }
    else if level.starts_with("v4/16") { halve(std::cmp::min(cfg.max_nodes_per_ipv4_16, per_ip.saturating_mul(10))) }
    else if level.starts_with("asn") {
        // the halving for hosting/VPN candidates applies to the IPv6 path, which is the only one with GeoIP data
        halve(cfg.max_nodes_per_asn)
    } else { usize::MAX }
}

fn model_counts(adm: &[Admitted], mapped: bool) -> BTreeMap<String, usize> {
    let mut m = BTreeMap::new();
    for a in adm {
        for l in levels_of(a.ip, a.asn, mapped) {
            *m.entry(l).or_insert(0) += 1;
        }
    }
    m
}

fn node(id: [u8; 32], addr: String) -> NodeInfo {
    NodeInfo { id: NodeId::from_bytes(id), address: addr, last_seen: SystemTime::UNIX_EPOCH + Duration::from_secs(1_700_000_000), capacity: NodeCapacity::default() }
}

fn execute(sc: &Value) -> RunReport {
    let seed = sc["seed"].as_u64().unwrap_or(0);
    let surface = sc["surface"].as_str().unwrap_or("enforcer").to_string();
    let cfg = config_of(sc);
    let geo_salt = sc["geo_salt"].as_u64().unwrap_or(0);
    let ops: Vec<Value> = sc["ops"].as_array().cloned().unwrap_or_default();
    let scratch = Scratch::new("c13");
    let rt = sim_runtime(seed);
    let mut ctx = Ctx::new();
    let local = Rng::new(seed ^ 0xC13).arr32();
    rt.block_on(async {
        let geo = Arc::new(TableGeo { salt: geo_salt });
        let lookup = |ip: IpAddr| -> (Option<u32>, bool) {
            match ip {
                IpAddr::V6(a) => { let g = geo.lookup(a); (g.asn, g.is_hosting_provider || g.is_vpn_provider) }
                IpAddr::V4(_) => (None, false),
            }
        };
        let mut enforcer = IPDiversityEnforcer::with_geo_provider(cfg.clone(), geo.clone());
        let engine = if surface == "engine" {
            let e = DhtCoreEngine::verif_new(NodeId::from_bytes(local), true).expect("engine");
            e.verif_set_ip_enforcer(IPDiversityEnforcer::with_geo_provider(cfg.clone(), geo.clone())).await;
            Some(tokio::sync::RwLock::new(e))
        } else { None };
        let bootstrap = if surface == "bootstrap" {
            let bc = BootstrapConfig {
                cache_dir: scratch.path.join("cache"),
                max_peers: 20_000,
                epsilon: 0.1,
                rate_limit: JoinRateLimiterConfig { max_joins_per_64_per_hour: 1_000_000, max_joins_per_48_per_hour: 1_000_000, max_joins_per_24_per_hour: 1_000_000, max_global_joins_per_minute: 1_000_000, global_burst_size: 1_000_000 },
                diversity: cfg.clone(),
            };
            match BootstrapManager::with_config(bc).await {
                Ok(b) => Some(b),
                Err(e) => { ctx.harness_error = Some(format!("bootstrap manager: {e}")); return; }
            }
        } else { None };
        // the bootstrap manager has no GeoIP provider: attributes are absent there
        let with_geo = surface != "bootstrap";
        let mut admitted: Vec<Admitted> = Vec::new();
        let mut removed_pool: Vec<Admitted> = Vec::new();
        let mut netsize = 0usize;
        let mut refusals = 0u64;
        let mut readmit_after_removal = 0u64;
        let mut id_counter = 0u64;

        'ops: for (idx, op) in ops.iter().enumerate() {
            ctx.ops += 1;
            let kind = op["op"].as_str().unwrap_or("");
            // ---- admission attempts
            let attempt: Option<(IpAddr, u16, [u8; 32], &str)> = match kind {
                "add" => {
                    let ip: IpAddr = op["ip"].as_str().unwrap_or("10.0.0.1").parse().expect("ip");
                    id_counter += 1;
                    let id = id_in_bucket(&local, op["bucket"].as_u64().unwrap_or(0) as usize, op["salt"].as_u64().unwrap_or(0) ^ id_counter);
                    Some((ip, op["port"].as_u64().unwrap_or(9000) as u16, id, "add"))
                }
                "readd" if !removed_pool.is_empty() => {
                    let a = removed_pool[(op["which"].as_u64().unwrap_or(0) as usize) % removed_pool.len()].clone();
                    readmit_after_removal += 1;
                    Some((a.ip, 9000, a.id, "readd_after_removal"))
                }
                _ => None,
            };
            if let Some((ip, port, id, label)) = attempt {
                let (asn, hosting) = if with_geo { lookup(ip) } else { (None, false) };
                let mapped = surface == "bootstrap" && false; // what the statement demands: IPv4 judged at IPv4 levels
                let counts = model_counts(&admitted, mapped);
                let lv = levels_of(ip, asn, mapped);
                let full: Vec<&String> = lv.iter().filter(|l| counts.get(*l).copied().unwrap_or(0) >= cap_of(l, &cfg, netsize, hosting)).collect();
                let expect = full.is_empty();
                // engine-only extra gates: bucket capacity and the per-region cap
                let mut other_gate: Option<&str> = None;
                let real_ok = match surface.as_str() {
                    "enforcer" => match enforcer.analyze_unified(ip) {
                        Ok(a) => enforcer.add_unified(&a).is_ok(),
                        Err(_) => false,
                    },
                    "engine" => {
                        let e = engine.as_ref().unwrap();
                        let table = e.read().await.verif_routing_entries().await;
                        if let Some(n) = table.iter().find(|n| n.id.as_bytes() == &id) {
                            other_gate = Some(if n.address == SocketAddr::new(ip, port).to_string() { "already_listed_same_address" } else { "already_listed_new_address" });
                        }
                        let b = super::c02::id_in_bucket; let _ = b;
                        let bucket_len = table.iter().filter(|n| bucket_index(&local, n.id.as_bytes()) == bucket_index(&local, &id)).count();
                        if bucket_len >= 8 && other_gate.is_none() { other_gate = Some("bucket_full"); }
                        let listed_new_addr = other_gate == Some("already_listed_new_address");
                        let region = format!("{:?}", GeographicRegion::from_ip(ip));
                        let regions = e.read().await.verif_region_counts().await;
                        if regions.get(&region).copied().unwrap_or(0) >= 50 && (other_gate.is_none() || listed_new_addr) { other_gate = Some("region_cap"); }
                        e.write().await.add_node(node(id, SocketAddr::new(ip, port).to_string())).await.is_ok()
                    }
                    _ => bootstrap.as_ref().unwrap().add_peer(hex::encode(id), vec![SocketAddr::new(ip, port)]).await.is_ok(),
                };
                ev!("#{idx} {label} {ip} asn={asn:?} hosting={hosting} expect={expect} gate={other_gate:?} -> {real_ok}");
                if !real_ok { refusals += 1; }
                let cfgname = sc["cfg"].as_str().unwrap_or("default");
                let fam = if ip.is_ipv4() { "v4" } else { "v6" };
                // a peer that is already listed at this very address is refreshed whatever the counters say
                let expect = if other_gate == Some("already_listed_same_address") { true } else { expect };
                let full: Vec<&String> = if other_gate == Some("already_listed_same_address") { vec![] } else { full };
                if real_ok && !expect {
                    ctx.violate("C13.cap.exceeded_on_admission", format!("{surface}:{fam}:{label}"), format!("op #{idx}: {ip} admitted although level(s) {full:?} were at their cap (config {cfgname}, network size {netsize})"));
                }
                if !real_ok && expect && (other_gate.is_none() || other_gate == Some("already_listed_same_address") || other_gate == Some("already_listed_new_address")) {
                    ctx.violate("C13.admission.refused_below_all_caps", format!("{surface}:{fam}:{label}"), format!("op #{idx}: {ip} refused although every level is below its cap (config {cfgname}, network size {netsize}, counts {:?})", lv.iter().map(|l| (l.clone(), counts.get(l).copied().unwrap_or(0))).collect::<Vec<_>>()));
                }
                if real_ok {
                    match other_gate {
                        Some("already_listed_same_address") => {}
                        Some("already_listed_new_address") => {
                            // the entry moved: the peer now holds the slots of the new address only
                            if let Some(a) = admitted.iter_mut().find(|a| a.id == id) { a.ip = ip; a.asn = asn; }
                        }
                        _ => admitted.push(Admitted { ip, id, asn }),
                    }
                }
            }
            match kind {
                "netsize" => {
                    netsize = op["size"].as_u64().unwrap_or(0) as usize;
                    match surface.as_str() {
                        "enforcer" => enforcer.set_network_size(netsize),
                        _ => { netsize = 0; } // the other surfaces expose no network-size setter
                    }
                    ev!("#{idx} netsize {netsize}");
                }
                "remove" if !admitted.is_empty() => {
                    let i = (op["which"].as_u64().unwrap_or(0) as usize) % admitted.len();
                    let a = admitted.remove(i);
                    let how = op["how"].as_str().unwrap_or("direct");
                    match surface.as_str() {
                        "enforcer" => { if let Ok(an) = enforcer.analyze_unified(a.ip) { enforcer.remove_unified(&an); } }
                        "engine" => {
                            let e = engine.as_ref().unwrap();
                            if how == "fail" { let _ = e.write().await.handle_node_failure(NodeId::from_bytes(a.id)).await; }
                            else { let _ = e.read().await.evict_node(&NodeId::from_bytes(a.id), EvictionReason::Stale).await; }
                        }
                        _ => { admitted.insert(i, a.clone()); continue 'ops; } // bootstrap has no removal API
                    }
                    ev!("#{idx} remove {} via {how}", a.ip);
                    ctx.probe("removal");
                    removed_pool.push(a);
                }
                "remove_unknown" if surface == "enforcer" => {
                    // removing an address that was never admitted must not free anybody else's slot
                    let ip: IpAddr = op["ip"].as_str().unwrap_or("10.0.0.1").parse().expect("ip");
                    if !admitted.iter().any(|a| levels_of(a.ip, a.asn, false).iter().any(|l| levels_of(ip, lookup(ip).0, false).contains(l))) {
                        if let Ok(an) = enforcer.analyze_unified(ip) { enforcer.remove_unified(&an); }
                        ev!("#{idx} remove_unknown {ip}");
                    }
                }
                _ => {}
            }
            // ---- counters must equal the admitted multiset, level by level
            let real: BTreeMap<String, usize> = match surface.as_str() {
                "enforcer" => enforcer.verif_counts(),
                "engine" => engine.as_ref().unwrap().read().await.verif_ip_counts().await,
                _ => continue, // the bootstrap manager's enforcer is private; verdicts are its observable
            };
            let model = model_counts(&admitted, false);
            let real_nz: BTreeMap<String, usize> = real.into_iter().filter(|(_, v)| *v > 0).collect();
            if real_nz != model {
                let diff: Vec<String> = real_nz.iter().filter(|(k, v)| model.get(*k) != Some(*v)).map(|(k, v)| format!("{k}: counter {v}, admitted {}", model.get(k).copied().unwrap_or(0)))
                    .chain(model.iter().filter(|(k, _)| !real_nz.contains_key(*k)).map(|(k, v)| format!("{k}: counter 0, admitted {v}"))).take(4).collect();
                let cause = match kind { "remove" => format!("remove:{}", op["how"].as_str().unwrap_or("")), k => k.to_string() };
                ctx.violate("C13.counters.differ_from_admitted_set", format!("{surface}:{cause}"), format!("after op #{idx} ({kind}): {}", diff.join("; ")));
                break 'ops;
            }
            if surface == "engine" {
                let regions = engine.as_ref().unwrap().read().await.verif_region_counts().await;
                let mut mr: BTreeMap<String, usize> = BTreeMap::new();
                for a in &admitted { *mr.entry(format!("{:?}", GeographicRegion::from_ip(a.ip))).or_insert(0) += 1; }
                let rr: BTreeMap<String, usize> = regions.into_iter().filter(|(_, v)| *v > 0).collect();
                if rr != mr {
                    ctx.violate("C13.counters.region_differs_from_admitted_set", format!("{surface}:{kind}"), format!("after op #{idx}: region counters {rr:?}, admitted per region {mr:?}"));
                    break 'ops;
                }
            }
        }
        // ---- epilogue (engine runs): an IPv4-mapped IPv6 address. Which family's levels such an address is
        //      judged at is the implementation's choice; what the statement fixes is that removal gives the slots
        //      back and a failed admission keeps none: admit, remove, admit again - nothing else changes in
        //      between, so the second verdict must equal the first.
        if let Some(e) = engine.as_ref() {
            let mut er = Rng::new(seed ^ 0x6d61_7070);
            for round in 0..3u64 {
                let mut id = er.arr32();
                id[0] = local[0] ^ (0x80 >> (round % 3)); // three different high buckets, away from the crowded ones
                let v4 = std::net::Ipv4Addr::new(203, 0, 113, 1 + er.below(200) as u8);
                let text = format!("[{}]:{}", v4.to_ipv6_mapped(), 4000 + er.below(1000));
                let first = e.write().await.add_node(node(id, text.clone())).await.is_ok();
                if !first { ctx.probe("mapped_address_refused_at_first"); continue; }
                let how = *er.pick(&["evict", "fail", "fail_twice"]);
                match how {
                    "evict" => { let _ = e.read().await.evict_node(&NodeId::from_bytes(id), EvictionReason::Stale).await; }
                    "fail" => { let _ = e.write().await.handle_node_failure(NodeId::from_bytes(id)).await; }
                    _ => { let _ = e.write().await.handle_node_failure(NodeId::from_bytes(id)).await; let _ = e.write().await.handle_node_failure(NodeId::from_bytes(id)).await; }
                }
                let listed = e.read().await.verif_routing_entries().await.iter().any(|n| n.id.as_bytes() == &id);
                if listed { ctx.probe("mapped_peer_still_listed_after_removal"); continue; }
                let second = e.write().await.add_node(node(id, text.clone())).await.is_ok();
                ev!("mapped epilogue {round}: {text} admitted, removed by {how}, admitted again = {second}");
                ctx.probe("mapped_address_readmitted_after_removal");
                if !second {
                    ctx.violate("C13.return.slots_not_returned_after_removal", format!("engine:mapped:{how}"), format!("{text} was admitted, removed from the routing table ({how}) and is refused when it comes back although nothing else changed"));
                }
                // leave the table as it was
                let _ = e.read().await.evict_node(&NodeId::from_bytes(id), EvictionReason::Stale).await;
            }
        }
        if refusals > 0 && readmit_after_removal > 0 { ctx.nontrivial = true; }
        if refusals > 0 { ctx.probe("refusal"); }
    });
    drop(rt);
    for k in ["removal", "refusal"] { ctx.probes.entry(k.to_string()).or_insert(0); }
    drop(scratch);
    ctx.finish()
}

fn bucket_index(local: &[u8; 32], id: &[u8; 32]) -> usize {
    for i in 0..256 {
        if ((local[i / 8] ^ id[i / 8]) >> (7 - (i % 8))) & 1 == 1 {
            return i;
        }
    }
    255
}
