//! C11 — unvouched identities gain no meaningful trust; anchors keep a floor.
//!
//! Trust world with a Byzantine (Sybil) population: a closed set S that rates
//! itself in drawn patterns, no statement from outside S into S, equal node
//! statistics (none, or identical for everybody), 1..50 anchors.

use crate::ev;
use crate::simkit::shrink::drop_chunks;
use crate::simkit::{CheckDef, Ctx, Rng, RunReport, Tier};
use serde_json::{Value, json};
use std::collections::BTreeSet;

use super::c10::run_world;

pub static DEF: CheckDef = CheckDef {
    id: "C11",
    level: "exploration",
    technique: "deterministic component simulation of the trust engine with a Byzantine reporter population (closed Sybil set with drawn internal rating graphs) on the seeded runtime; oracle = mass bound on the closed set and anchor floor on the recomputed distribution",
    runs: (3000, 60000),
    generate,
    execute,
    shrink,
    rule: "each run = one world: 2..60 honest identities (1..50 of them anchors), honest graph density drawn from {none, sparse, dense}, Sybil set of 1..60 (quick) / 1..1000 (thorough) identities with internal pattern from {clique, star, chain, self-loops, random, mixed}, optional Sybil->honest statements, statistics none or identical for all; statements interleaved over 2..4 actor tasks with seeded delays, optional background recomputation; non-trivial = Sybil set and at least one anchor both present in the recomputed map; distinct = distinct hash of the statement log and rounded score vector",
    real_components: &["EigenTrustEngine (same surface as C10)"],
    stubbed_components: &["Byzantine reporters are scripted statement generators (they need no protocol)"],
    assumptions: &["the population n is the number of identities in the recomputed map; the Sybil share is |S present| / n"],
};

fn generate(seed: u64, tier: Tier) -> Value {
    let mut r = Rng::new(seed);
    // mostly small honest populations; one world in six has hundreds of honest identities, so that
    // the truncated-iteration regimes (n > 100, n > 500) are met with a small Sybil share too
    let honest = if r.chance(1, 6) { r.range(120, 600) } else { r.range(2, 60) };
    let n_anchor = r.range(1, honest.min(50));
    let mut ids: Vec<u64> = (0..honest).collect();
    r.shuffle(&mut ids);
    let anchors: Vec<u64> = ids[..n_anchor as usize].to_vec();
    let s_n = match tier {
        Tier::Quick => {
            let k = r.below(15);
            if k == 0 { r.range(500, 650) } else if k < 4 { r.range(101, 200) } else { r.range(1, 60) }
        }
        Tier::Thorough => {
            let k = r.below(10);
            if k == 0 { r.range(400, 1000) } else if k < 3 { r.range(60, 400) } else { r.range(1, 60) }
        }
    };
    let sybil: Vec<u64> = (0..s_n).map(|i| 10_000 + i).collect();
    let tasks = r.range(2, 4);
    let mut ops: Vec<Value> = Vec::new();
    fn push_impl(ops: &mut Vec<Value>, tasks: u64, r: &mut Rng, from: u64, to: u64, ok: bool, reps: u64) {
        for _ in 0..reps {
            ops.push(json!({"op": "local", "from": from, "to": to, "ok": ok,
                            "task": r.below(tasks), "delay_ms": *r.pick(&[0u64, 0, 1, 50, 1000])}));
        }
    }
    macro_rules! push {
        ($r:expr, $a:expr, $b:expr, $ok:expr, $reps:expr) => {{
            let (a, b, ok, reps) = ($a, $b, $ok, $reps);
            push_impl(&mut ops, tasks, $r, a, b, ok, reps)
        }};
    }
    // honest graph; in one world in four a share of the honest raters only ever report failures
    let density = r.below(3);
    let neg_only_below = if r.chance(1, 4) { r.range(1, honest) } else { 0 };
    if neg_only_below > 0 && density == 0 {
        for a in 0..neg_only_below {
            let b = r.below(honest);
            push!(&mut r, a, b, false, 1);
        }
    }
    if density > 0 {
        let edges = if density == 1 { honest } else { honest * 4 };
        for _ in 0..edges {
            let a = r.below(honest);
            let b = r.below(honest);
            let ok = if a < neg_only_below { false } else { r.chance(9, 10) };
            let reps = r.range(1, 3);
            push!(&mut r, a, b, ok, reps);
        }
    }
    // sybil internal pattern
    let pattern = *r.pick(&["clique", "star", "chain", "self", "random", "mixed"]);
    let s = sybil.len();
    let cap = 4000usize;
    match pattern {
        "clique" => {
            let m = s.min(40);
            'o: for i in 0..m {
                for j in 0..m {
                    if i != j {
                        push!(&mut r, sybil[i], sybil[j], true, 1);
                    }
                    if ops.len() > cap { break 'o; }
                }
            }
            for i in m..s {
                push!(&mut r, sybil[i], sybil[i % m], true, 1);
                push!(&mut r, sybil[i % m], sybil[i], true, 1);
            }
        }
        "star" => {
            for i in 1..s {
                push!(&mut r, sybil[i], sybil[0], true, 1);
                push!(&mut r, sybil[0], sybil[i], true, 1);
            }
            if s == 1 { push!(&mut r, sybil[0], sybil[0], true, 1); }
        }
        "chain" => {
            for i in 0..s {
                push!(&mut r, sybil[i], sybil[(i + 1) % s], true, 1);
            }
        }
        "self" => {
            for i in 0..s {
                let reps = r.range(1, 3);
                push!(&mut r, sybil[i], sybil[i], true, reps);
            }
        }
        "random" => {
            for _ in 0..(s * 3).min(cap) {
                let a = *r.pick(&sybil);
                let b = *r.pick(&sybil);
                let ok = r.chance(4, 5);
                push!(&mut r, a, b, ok, 1);
            }
        }
        _ => {
            for i in 0..s {
                push!(&mut r, sybil[i], sybil[i], true, 1);
                push!(&mut r, sybil[i], sybil[(i + 1) % s], true, 1);
                if r.chance(1, 3) { push!(&mut r, sybil[i], sybil[0], true, 2); }
            }
        }
    }
    // sybils may also rate honest nodes (allowed: outgoing from S)
    if r.chance(1, 3) {
        for _ in 0..r.range(1, 10) {
            let a = *r.pick(&sybil);
            let b = r.below(honest);
            let ok = r.chance(1, 2);
            push!(&mut r, a, b, ok, 1);
        }
    }
    r.shuffle(&mut ops);
    // transient voucher: an outside identity vouches for the set, a recomputation runs, then the
    // voucher is removed from the trust system; in the end nobody outside the set rates it
    let mut voucher_ops: Vec<Value> = Vec::new();
    if r.chance(1, 3) {
        let hub = 5_000u64;
        let anchor = anchors[0];
        voucher_ops.push(json!({"op": "local", "from": anchor, "to": hub, "ok": true, "task": 0, "delay_ms": 0}));
        for _ in 0..r.range(1, 3) {
            voucher_ops.push(json!({"op": "local", "from": hub, "to": *r.pick(&sybil), "ok": true, "task": 0, "delay_ms": 0}));
        }
        voucher_ops.push(json!({"op": "compute", "task": 0, "delay_ms": 1}));
        voucher_ops.push(json!({"op": "tp_remove", "node": hub, "task": 0, "delay_ms": 1}));
        voucher_ops.push(json!({"op": "yield", "task": 0, "delay_ms": 5}));
    }
    // equal statistics: none, or identical for everybody (applied first, before any statement)
    let mut all_ops: Vec<Value> = Vec::new();
    let stats_mode = r.below(3);
    if stats_mode > 0 {
        let upd: Vec<(&str, u64)> = if stats_mode == 1 {
            vec![("Correct", 0), ("Uptime", 3600)]
        } else {
            vec![("Correct", 0), ("Correct", 0), ("Failed", 0), ("Storage", 10), ("Uptime", 100_000)]
        };
        for id in (0..honest).chain(sybil.iter().copied()) {
            for (k, v) in &upd {
                all_ops.push(json!({"op": "stats", "node": id, "kind": k, "v": v, "task": 0, "delay_ms": 0}));
            }
        }
    }
    // the voucher episode runs on task 0 after everything else of task 0; other tasks are done long before
    for o in voucher_ops.iter_mut() { o["delay_ms"] = json!(o["delay_ms"].as_u64().unwrap_or(0) + 5_000); }
    all_ops.extend(ops);
    all_ops.extend(voucher_ops);
    if r.chance(1, 3) {
        all_ops.push(json!({"op": "compute", "task": 0, "delay_ms": 0}));
    }
    json!({"property": "C11", "seed": seed, "n": 20_000, "anchors": anchors, "tasks": tasks,
           "background": r.chance(1, 3), "ops": all_ops, "honest": honest, "sybil_n": s_n,
           "pattern": pattern, "stats_mode": stats_mode, "density": density})
}

fn shrink(sc: &Value) -> Vec<Value> {
    // Only statements may be dropped; dropping a statistics op would break the
    // "statistics equal" precondition, so those are dropped all together or not at all.
    let mut out = Vec::new();
    let ops = sc["ops"].as_array().cloned().unwrap_or_default();
    let (stats, rest): (Vec<Value>, Vec<Value>) = ops.into_iter().partition(|o| o["op"] == "stats");
    let mut tmp = sc.clone();
    tmp["ops"] = Value::Array(rest.clone());
    for c in drop_chunks(&tmp, "ops") {
        let mut c2 = c.clone();
        let mut v = stats.clone();
        v.extend(c["ops"].as_array().cloned().unwrap_or_default());
        c2["ops"] = Value::Array(v);
        out.push(c2);
    }
    if !stats.is_empty() {
        let mut c = sc.clone();
        c["ops"] = Value::Array(rest);
        c["stats_mode"] = json!(0);
        out.push(c);
    }
    // dropping anchors keeps the precondition as long as one remains
    if sc["anchors"].as_array().map(|a| a.len()).unwrap_or(0) > 1 {
        for c in drop_chunks(sc, "anchors") {
            if c["anchors"].as_array().map(|a| !a.is_empty()).unwrap_or(false) {
                out.push(c);
            }
        }
    }
    if sc["background"].as_bool() == Some(true) {
        let mut c = sc.clone();
        c["background"] = json!(false);
        out.push(c);
    }
    out
}

fn execute(sc: &Value) -> RunReport {
    let mut ctx = Ctx::new();
    let anchors: BTreeSet<u64> = sc["anchors"].as_array().map(|a| a.iter().filter_map(|v| v.as_u64()).collect()).unwrap_or_default();
    if anchors.is_empty() {
        return ctx.finish(); // precondition: anchors exist
    }
    // closedness precondition is checked on the scenario itself (minimisation may not break it)
    let all = sc["ops"].as_array().cloned().unwrap_or_default();
    for (i, o) in all.iter().enumerate() {
        if o["op"] == "local" || o["op"] == "tp_update" {
            let f = o["from"].as_u64().unwrap_or(0);
            let t = o["to"].as_u64().unwrap_or(0);
            let removed_later = all[i..].iter().any(|x| x["op"] == "tp_remove" && x["node"].as_u64() == Some(f));
            if f < 10_000 && t >= 10_000 && !removed_later {
                ctx.harness_error = Some("scenario violates closedness of the Sybil set".into());
                return ctx.finish();
            }
        }
    }
    let w = run_world(sc, None, true);
    ctx.ops = w.reports + w.computes;
    for (class, detail) in &w.malformed {
        // well-formedness belongs to C10; here it would only blur the C11 verdict
        ev!("note: malformed distribution ({class}): {detail}");
    }
    let n = w.final_map.len();
    let s_present: Vec<(&u64, &f64)> = w.final_map.iter().filter(|(k, _)| **k >= 10_000).collect();
    let s_mass: f64 = s_present.iter().map(|(_, v)| **v).sum();
    let s_cnt = s_present.len();
    let anchors_present = anchors.iter().filter(|a| w.final_map.contains_key(a)).count();
    if s_cnt > 0 && anchors_present > 0 {
        ctx.nontrivial = true;
    }
    if n > 100 { ctx.probe("n_over_100"); }
    if n > 500 { ctx.probe("n_over_500"); }
    let pattern = sc["pattern"].as_str().unwrap_or("?");
    let stats_mode = sc["stats_mode"].as_u64().unwrap_or(0);
    let density = sc["density"].as_u64().unwrap_or(0);
    ev!("world n={n} sybils={s_cnt} anchors={} pattern={pattern} stats={stats_mode} density={density} sybil_mass={:.6}", anchors.len(), s_mass);
    let shape = format!("pattern={pattern}:honest_density={density}:stats={stats_mode}:{}", if n > 500 { "n>500" } else if n > 100 { "n>100" } else { "n<=100" });
    if s_cnt > 0 && n > 0 {
        let share = s_cnt as f64 / n as f64;
        if s_mass > share / 7.0 + 1e-9 {
            ctx.violate(
                "C11.sybil.mass_exceeds_seventh_of_share",
                shape.clone(),
                format!("closed set of {s_cnt} of {n} identities holds {s_mass:.6} > share/7 = {:.6}", share / 7.0),
            );
        }
        if n <= 100 && s_mass >= 0.001 {
            ctx.violate(
                "C11.sybil.mass_over_0.1pct_small_network",
                shape.clone(),
                format!("closed set of {s_cnt} of {n} identities holds {s_mass:.6} >= 0.001"),
            );
        }
    }
    let floor = 0.4 / anchors.len() as f64;
    for a in &anchors {
        let t = w.final_map.get(a).copied();
        match t {
            Some(t) if t >= floor - 1e-9 => {}
            other => {
                // an anchor the engine has never heard of has no score at all; the floor
                // speaks about the recomputed distribution, where anchors are always inserted
                if n == 0 { continue; }
                ctx.violate(
                    "C11.anchor.below_floor",
                    shape.clone(),
                    format!("anchor {a} has {:?} < 0.4/{} = {floor:.6}", other, anchors.len()),
                );
            }
        }
    }
    ctx.finish()
}
