//! C05 — hostile inbound bytes are rejected safely; sender id comes from the connection.
//!
//! SIM-NET: a real node (victim) with a real honest peer and hostile stubs whose
//! frames enter through the real receive loop. The simulated wall clock is set,
//! skewed and jumped (also while a frame is in flight); every frame's fate is
//! compared with what the documented rules say, allocation is measured around
//! every delivery, and at the end the victim's tables are read directly.

use crate::ev;
use crate::simkit::alloc;
use crate::simkit::shrink::drop_chunks;
use crate::simkit::{CheckDef, Ctx, Rng, RunReport, Tier, install_panic_recorder, sim_runtime, take_panics};
use crate::simnet;
use saorsa_core::dht::network_integration::{DhtMessage, DhtResponse};
use saorsa_core::dht::{DhtKey, DhtRequestWrapper};
use saorsa_core::dht_network_manager::{DHTNode, DhtMessageType, DhtNetworkMessage, DhtNetworkOperation, DhtNetworkResult};
use saorsa_core::network::P2PEvent;
use saorsa_core::placement::dht_records::{DataPointer, DhtRecord, DhtRecordData, Hash};
use saorsa_core::transport_handle::TransportHandle;
use saorsa_core::verif_hooks;
use serde_json::{Value, json};
use std::collections::BTreeMap;
use std::time::Duration;

use super::c01::build_world;

pub static DEF: CheckDef = CheckDef {
    id: "C05",
    level: "exploration",
    technique: "deterministic network simulation with hostile peers and clock faults: structure-aware hostile frames (every message kind, boundary sizes, length-prefix inflation, flips, truncation, nesting, claimed senders) enter a real node through its real receive loop from stub connections while the simulated wall clock is skewed and jumped, also mid-flight; per-frame oracle from the documented rules (window, size limits, connection identity), allocation measured around every delivery, victim tables read at the end",
    runs: (1500, 40000),
    generate,
    execute,
    shrink,
    rule: "each run = one real victim node + one real honest peer + 2 hostile stubs + 0..40 further stub connections (to fill the routing table); 12..48 steps, each a hostile frame (random bytes, valid DHT request/response of every kind with boundary value sizes 0/511/512/513/4096, padded to 65535/65536/65537/100000 bytes, wire- or payload-level mutation, /rr/ envelope, application topic), a timestamp offset from the boundary set {-10^5,-301,-300,-299,-1,0,29,30,31,10^5,0,u64::MAX}, a claimed sender (victim, honest peer, random), an optional wall-clock jump before or during flight, or a direct call (DhtRecord::deserialize, parse_request_envelope, core-engine FindNode count / Store size); non-trivial = at least one frame surfaced, one rejected by the window, one oversized and one clock jump; distinct = distinct hash of the per-step outcome log",
    real_components: &["TransportHandle receive loop + network::parse_protocol_message (window, source identity)", "DhtNetworkManager event handler, handle_dht_message (size check, decode), handle_dht_request/response, store_local_in_core", "DhtCoreEngine::handle_request, data store, routing table", "placement::dht_records::DhtRecord (de)serialise", "TransportHandle::parse_request_envelope"],
    stubbed_components: &["ant-quic: in-memory network; hostile peers = stub connections with an authenticated id chosen by the harness", "wall clock: verif_hooks simulated unix seconds"],
    assumptions: &["frames that are /rr/ responses are not required to surface (the library suppresses unmatched ones)", "allocation bound used: largest single request <= 2 x frame length + 1.5 MiB and peak growth <= 8 x frame length + 4 MiB (serde pre-allocation is capped at 1 MiB)"],
};

const OFFS: [i64; 12] = [-100_000, -301, -300, -299, -1, 0, 29, 30, 31, 100_000, i64::MIN, i64::MAX];

fn generate(seed: u64, tier: Tier) -> Value {
    let mut r = Rng::new(seed);
    let extra = if r.chance(1, 2) { r.below(41) } else { 0 };
    let nsteps = r.range(12, if tier == Tier::Quick { 32 } else { 48 });
    let mut steps = Vec::new();
    for i in 0..nsteps {
        let kind = *r.pick(&["dht_req", "dht_req", "dht_req", "dht_resp", "random", "rr", "app", "oversize", "direct", "dht_req", "rr_reply"]);
        let in_window = r.chance(3, 5);
        let off = if in_window { *r.pick(&[-300i64, -299, -1, 0, 0, 0, 29, 30]) } else { *r.pick(&OFFS) };
        steps.push(json!({"i": i, "kind": kind, "off": off, "via": r.below(2), "claimed": *r.pick(&["victim", "peer", "random", "own"]),
            "op": *r.pick(&["put", "put", "get", "find_node", "find_value", "ping", "join", "leave"]),
            "value_len": *r.pick(&[0u64, 1, 100, 511, 512, 513, 4096, 60000]),
            "pad_to": if r.chance(1, 5) { *r.pick(&[65535u64, 65536]) } else { 0 },
            "over_to": *r.pick(&[65537u64, 65538, 100_000, 131_072]),
            "mutate": if r.chance(1, 4) { *r.pick(&["flip_payload", "truncate_payload", "inflate_payload", "flip_wire", "truncate_wire", "inflate_wire", "extend_wire"]) } else { "none" },
            "resp": *r.pick(&["nodes_found", "get_success", "value_found", "error", "pong"]), "count": *r.pick(&[0u64, 1, 20, 21, 500, 3000]), "str_len": *r.pick(&[0u64, 10, 1000, 20000]),
            "rand_len": *r.pick(&[0u64, 1, 9, 64, 1000, 65536, 131_072]), "salt": r.below(1 << 40),
            "jump_before": if r.chance(1, 6) { *r.pick(&[-1000i64, -301, -30, 31, 301, 5000]) } else { 0 },
            "jump_inflight": if r.chance(1, 8) { *r.pick(&[-400i64, -31, 31, 400]) } else { 0 },
            "direct": *r.pick(&["record", "record_big", "envelope", "core_find_node", "core_store", "handle_dht_message"]),
            "id_style": if r.chance(1, 3) { *r.pick(&["empty", "uni_at_36", "uni_at_36", "uni_random", "long_ascii", "long_uni", "nul", "uuid"]) } else { "plain" },
            "id_shift": r.below(8),
            "src_style": if r.chance(1, 6) { *r.pick(&["empty", "uni_random", "long_uni", "uni_at_36"]) } else { "plain" },
            "target_style": if r.chance(1, 6) { *r.pick(&["plain", "empty", "uni_random", "long_uni", "uni_at_36"]) } else { "none" },
            "honest_after": r.chance(1, 3)}));
    }
    // one run in ten measures what the node RETAINS: the same kind of frame 160 times, live bytes compared
    // between the 40th and the last frame
    let retention = if r.chance(1, 10) {
        steps.clear();
        json!({"kind": *r.pick(&["put_too_big", "put_ok_one_key", "resp_nodes", "resp_value", "rr_unknown_response", "rr_request", "app_topic", "random_bytes", "find_node_keys", "get_keys", "stale_timestamp", "undecodable_dht", "oversize_dht", "long_ids"]),
               "n": 160, "size": *r.pick(&[2_000u64, 20_000, 60_000]), "salt": r.below(1 << 40)})
    } else { Value::Null };
    json!({"property": "C05", "seed": seed, "net_seed": r.below(1 << 40), "n": 2, "topology": "mesh", "edges": [[0, 1]], "retention": retention,
           "ident": if r.chance(1, 2) { "a" } else { "b" }, "k": *r.pick(&[8u64, 20, 32]), "timeout_ms": 1000,
           "nodes": (0..2).map(|i| json!({"tid_salt": r.below(1 << 40), "ip": [10, 1, r.below(250), 1 + i], "port": 9000 + i})).collect::<Vec<_>>(),
           "faults": {"silence": [], "slow": [], "drops": [], "dial": []}, "liars": [], "latency_ms": *r.pick(&[1u64, 5]), "jitter_ms": *r.pick(&[0u64, 5]),
           "extra_stubs": extra, "steps": steps})
}

/// Strings a hostile peer may put where the library expects an identifier.
pub fn hostile_string(style: &str, plain: &str, shift: usize, sr: &mut Rng) -> String {
    const WIDE: [char; 6] = ['\u{e9}', '\u{20ac}', '\u{1f980}', '\u{7ff}', '\u{800}', '\u{10ffff}'];
    match style {
        "empty" => String::new(),
        // a multi-byte character straddling byte 36 (the length of a textual UUID), 32, 40 or 64
        "uni_at_36" => {
            let cut = *sr.pick(&[36usize, 36, 36, 32, 40, 64, 16, 8, 8, 4, 12, 24, 48, 128, 255, 256]);
            let w = *sr.pick(&WIDE);
            let lead = cut - 1 - shift % (w.len_utf8() - 1);
            format!("{}{}{}", "a".repeat(lead), w, "-tail".repeat(sr.usize_below(4)))
        }
        "uni_random" => { let n = sr.usize_below(90); (0..n).map(|_| if sr.chance(1, 3) { *sr.pick(&WIDE) } else { (b'a' + sr.below(26) as u8) as char }).collect() }
        "long_ascii" => "i".repeat(*sr.pick(&[37usize, 255, 256, 5000, 40_000])),
        "long_uni" => WIDE[sr.usize_below(WIDE.len())].to_string().repeat(*sr.pick(&[13usize, 100, 3000])),
        "nul" => format!("{plain}\u{0}\u{0}\u{202e}"),
        "uuid" => { let b = sr.bytes(16); format!("{}-{}-{}-{}-{}", hex::encode(&b[0..4]), hex::encode(&b[4..6]), hex::encode(&b[6..8]), hex::encode(&b[8..10]), hex::encode(&b[10..16])) }
        _ => plain.to_string(),
    }
}

fn shrink(sc: &Value) -> Vec<Value> {
    let mut v = drop_chunks(sc, "steps");
    if sc["extra_stubs"].as_u64().unwrap_or(0) > 0 {
        let mut c = sc.clone();
        c["extra_stubs"] = json!(sc["extra_stubs"].as_u64().unwrap_or(0) / 2);
        v.push(c);
    }
    if let Some(arr) = sc["steps"].as_array() {
        for (i, st) in arr.iter().enumerate() {
            for f in ["jump_before", "jump_inflight"] {
                if st[f].as_i64().unwrap_or(0) != 0 { let mut c = sc.clone(); c["steps"][i][f] = json!(0); v.push(c); }
            }
            if st["mutate"] != "none" { let mut c = sc.clone(); c["steps"][i]["mutate"] = json!("none"); v.push(c); }
            if st["honest_after"] == true { let mut c = sc.clone(); c["steps"][i]["honest_after"] = json!(false); v.push(c); }
        }
    }
    v
}

fn mutate(kind: &str, level: &str, mut b: Vec<u8>, r: &mut Rng) -> Vec<u8> {
    if !kind.ends_with(level) || b.is_empty() { return b; }
    match kind.split('_').next().unwrap_or("") {
        "flip" => { let i = r.usize_below(b.len()); b[i] ^= 1 << r.below(8); b }
        "truncate" => { let n = r.usize_below(b.len()); b.truncate(n); b }
        // overwrite a position with a maximal varint: a length prefix claiming ~2^63 elements
        "inflate" => { let i = r.usize_below(b.len().min(48)); let tail = b.split_off(i); b.extend_from_slice(&[0xff, 0xff, 0xff, 0xff, 0xff, 0xff, 0xff, 0xff, 0x7f]); b.extend_from_slice(&tail[1.min(tail.len())..]); b }
        "extend" => { let n = r.usize_below(2000); b.extend(r.bytes(n)); b }
        _ => b,
    }
}

fn key_for(i: u64) -> [u8; 32] {
    let mut k = [0u8; 32];
    k[0] = 0xC5;
    k[1..9].copy_from_slice(&i.to_be_bytes());
    k
}

fn execute(sc: &Value) -> RunReport {
    let seed = sc["seed"].as_u64().unwrap_or(0);
    install_panic_recorder();
    let _ = take_panics();
    let rt = sim_runtime(seed);
    let mut ctx = Ctx::new();
    let w0: u64 = 1_700_000_000 + seed % 100_000_000;
    verif_hooks::set_wall_secs(w0);
    rt.block_on(async {
        let (net, nodes) = match build_world(sc, false).await {
            Ok(x) => x,
            Err(e) => { ctx.harness_error = Some(format!("build_world: {e}")); return; }
        };
        let victim = &nodes[0];
        let peer = &nodes[1];
        let mut wall = w0;
        let _ = Rng::new(seed ^ 0xc05);
        // hostile stubs (authenticated ids chosen here) and further connections
        let mut hostile = Vec::new();
        for h in 0..2u8 {
            let tid = hex::encode(Rng::new(seed ^ (0xbad0 + h as u64)).arr32());
            let addr: std::net::SocketAddr = format!("172.{}.9.9:7{:03}", 20 + h, h).parse().unwrap();
            let (idx, rx) = net.add_stub(&tid, addr);
            let _ = victim.transport.verif_accept(&tid, addr).await;
            net.link(idx, victim.idx);
            hostile.push((idx, tid, rx));
        }
        let mut conn_ids: Vec<String> = vec![peer.tid.clone(), hostile[0].1.clone(), hostile[1].1.clone()];
        let mut extra_rx = Vec::new();
        for e in 0..sc["extra_stubs"].as_u64().unwrap_or(0) {
            let tid = hex::encode(Rng::new(seed ^ (0xe000 + e)).arr32());
            let addr: std::net::SocketAddr = format!("{}.{}.7.7:6000", 30 + e, 1 + (e * 7) % 200).parse().unwrap();
            let (idx, rx) = net.add_stub(&tid, addr);
            let _ = victim.transport.verif_accept(&tid, addr).await;
            net.link(idx, victim.idx);
            conn_ids.push(tid);
            extra_rx.push(rx);
        }
        tokio::time::sleep(Duration::from_millis(300)).await;
        let mut events = victim.transport.subscribe_events();
        let dht = victim.manager.verif_dht();
        let routing_before = dht.read().await.verif_routing_entries().await.len();
        ev!("world: routing entries on victim = {routing_before}, connections = {}", conn_ids.len());
        let mut model: BTreeMap<[u8; 32], Vec<u8>> = BTreeMap::new();
        let (mut surfaced, mut window_rejected, mut oversized, mut jumps) = (0u64, 0u64, 0u64, 0u64);
        let (mut max_big, mut max_peak) = (0u64, 0u64);

        if !sc["retention"].is_null() {
            let ret = &sc["retention"];
            let kind = ret["kind"].as_str().unwrap_or("random_bytes").to_string();
            let n = ret["n"].as_u64().unwrap_or(160);
            let size = ret["size"].as_u64().unwrap_or(20_000) as usize;
            let mut sr = Rng::new(ret["salt"].as_u64().unwrap_or(0) ^ seed);
            let (hidx, htid) = (hostile[0].0, hostile[0].1.clone());
            net.set_recording(false);
            let mut live_at_warm = 0i64;
            let mut sent_bytes = 0u64;
            for i in 0..n {
                let id = format!("ret-{i}-{}", if kind == "long_ids" { "x".repeat(size.min(40_000)) } else { String::new() });
                let mk = |mt: DhtMessageType, payload: DhtNetworkOperation, result: Option<DhtNetworkResult>, ts: u64| DhtNetworkMessage {
                    message_id: id.clone(), source: htid.clone(), target: None, message_type: mt, payload, result, timestamp: ts, ttl: 7, hop_count: 0 };
                let key = key_for(1_000_000 + i);
                let (protocol, payload, ts): (String, Vec<u8>, u64) = match kind.as_str() {
                    "put_too_big" => ("/dht/1.0.0".into(), postcard::to_stdvec(&mk(DhtMessageType::Request, DhtNetworkOperation::Put { key, value: sr.bytes(size.clamp(513, 60_000)) }, None, wall)).unwrap_or_default(), wall),
                    "put_ok_one_key" => ("/dht/1.0.0".into(), postcard::to_stdvec(&mk(DhtMessageType::Request, DhtNetworkOperation::Put { key: key_for(999_999), value: sr.bytes(512) }, None, wall)).unwrap_or_default(), wall),
                    "resp_nodes" => ("/dht/1.0.0".into(), postcard::to_stdvec(&mk(DhtMessageType::Response, DhtNetworkOperation::FindNode { key }, Some(DhtNetworkResult::NodesFound { key, nodes: (0..(size / 120).min(500)).map(|j| DHTNode { peer_id: hex::encode(sr.arr32()), address: format!("{}.{}.1.1:9000", 1 + j % 200, j % 250), distance: None, reliability: 1.0, cached_dht_key: None }).collect() }), wall)).unwrap_or_default(), wall),
                    "resp_value" => ("/dht/1.0.0".into(), postcard::to_stdvec(&mk(DhtMessageType::Response, DhtNetworkOperation::Get { key }, Some(DhtNetworkResult::GetSuccess { key, value: sr.bytes(size.min(60_000)), source: htid.clone() }), wall)).unwrap_or_default(), wall),
                    "rr_unknown_response" => (format!("/rr/ret-{i}"), verif_hooks::encode_envelope(&format!("unknown-{i}"), true, sr.bytes(size)), wall),
                    "rr_request" => ("/rr/ret".to_string(), verif_hooks::encode_envelope(&format!("req-{i}"), false, sr.bytes(size)), wall),
                    "app_topic" => (format!("ret-topic-{i}"), sr.bytes(size), wall),
                    "find_node_keys" | "long_ids" => ("/dht/1.0.0".into(), postcard::to_stdvec(&mk(DhtMessageType::Request, DhtNetworkOperation::FindNode { key }, None, wall)).unwrap_or_default(), wall),
                    "get_keys" => ("/dht/1.0.0".into(), postcard::to_stdvec(&mk(DhtMessageType::Request, DhtNetworkOperation::Get { key }, None, wall)).unwrap_or_default(), wall),
                    "stale_timestamp" => ("/dht/1.0.0".into(), postcard::to_stdvec(&mk(DhtMessageType::Request, DhtNetworkOperation::Put { key, value: sr.bytes(512) }, None, wall - 10_000)).unwrap_or_default(), wall - 10_000),
                    "undecodable_dht" => ("/dht/1.0.0".into(), sr.bytes(size.min(60_000)), wall),
                    "oversize_dht" => ("/dht/1.0.0".into(), sr.bytes(70_000), wall),
                    _ => (String::new(), Vec::new(), wall),
                };
                let frame = if kind == "random_bytes" { sr.bytes(size) } else { verif_hooks::encode_wire(&protocol, payload, &htid, ts) };
                if i >= 40 { sent_bytes += frame.len() as u64; }
                net.inject(hidx, victim.idx, frame, 0);
                tokio::time::sleep(Duration::from_millis(60)).await;
                while events.try_recv().is_ok() {}
                for h in hostile.iter_mut() { while h.2.try_recv().is_ok() {} }
                if i == 39 {
                    tokio::time::sleep(Duration::from_millis(2_500)).await;
                    live_at_warm = alloc::live();
                }
                ctx.ops += 1;
            }
            // handlers, request timeouts and sweeps have all run out two request timeouts later
            tokio::time::sleep(Duration::from_millis(2_500)).await;
            while events.try_recv().is_ok() {}
            for h in hostile.iter_mut() { while h.2.try_recv().is_ok() {} }
            let live_end = alloc::live();
            net.set_recording(true);
            let growth = (live_end - live_at_warm).max(0) as u64;
            ctx.probe("retention_run");
            ctx.fault("repeated_hostile_frames");
            ev!("retention kind={kind} frames={} bytes_sent_after_warmup={sent_bytes}", n - 40);
            // 120 frames after the warm-up: at most 16 KiB + 1/16 of what was sent may stay behind
            // (a stored 512-byte value under one key is already there at warm-up)
            let allowed = 16 * 1024 + sent_bytes / 16;
            if growth > allowed {
                ctx.violate("C05.retain.memory_grows_with_handled_frames", kind.clone(), format!("after a warm-up of 40 frames, 120 more `{kind}` frames ({sent_bytes} bytes) left {growth} more live bytes behind (allowed {allowed})"));
            }
            for p in take_panics() { ctx.violate("C05.panic.in_message_handling", kind.clone(), format!("retention run: {}", p.chars().take(300).collect::<String>())); }
            surfaced = 1; window_rejected = 1; oversized = 1; jumps = 1; // the non-trivial rule of this family is its own
        }
        for st in sc["steps"].as_array().cloned().unwrap_or_default() {
            let i = st["i"].as_u64().unwrap_or(0);
            let kind = st["kind"].as_str().unwrap_or("random");
            let mut sr = Rng::new(st["salt"].as_u64().unwrap_or(0) ^ seed);
            ctx.ops += 1;
            let jb = st["jump_before"].as_i64().unwrap_or(0);
            if jb != 0 { wall = (wall as i64 + jb).max(1_000_000) as u64; verif_hooks::set_wall_secs(wall); jumps += 1; ctx.fault("clock_jump"); }

            if kind == "direct" {
                direct_step(&mut ctx, &st, &mut sr, victim, &dht, &mut model, i).await;
                continue;
            }
            if kind == "rr_reply" {
                // The victim has a request in flight to the hostile peer, which answers on its own connection with
                // the right identifier - and a timestamp of its choosing. A reply frame is a framed message like
                // any other: outside the window it must not be surfaced to the caller.
                let h = (st["via"].as_u64().unwrap_or(0) % 2) as usize;
                let (hidx, htid) = (hostile[h].0, hostile[h].1.clone());
                for hh in hostile.iter_mut() { while hh.2.try_recv().is_ok() {} }
                let tr = victim.transport.clone();
                let to = htid.clone();
                let req = tokio::spawn(async move { tr.send_request(&to, "c05", format!("c05-rr-{i}").into_bytes(), Duration::from_millis(800)).await });
                let mut got = None;
                for _ in 0..200 {
                    tokio::time::sleep(Duration::from_millis(1)).await;
                    if let Ok((_from, bytes)) = hostile[h].2.try_recv() { got = Some(bytes); break; }
                }
                let parsed = got.as_ref().and_then(|b| verif_hooks::decode_wire(b)).and_then(|(proto, data, _f, _t)| verif_hooks::decode_envelope(&data).map(|e| (proto, e.0)));
                let Some((proto, mid)) = parsed else { ctx.probe("rr_reply_request_not_seen"); req.abort(); continue };
                let off = st["off"].as_i64().unwrap_or(0);
                let ts: u64 = if off == i64::MIN { 0 } else if off == i64::MAX { u64::MAX } else { (wall as i64 + off).max(0) as u64 };
                let reply = verif_hooks::encode_wire(&proto, verif_hooks::encode_envelope(&mid, true, format!("answer-{i}").into_bytes()), &htid, ts);
                net.inject(hidx, victim.idx, reply, 0);
                let res = req.await;
                let inside = ts >= wall.saturating_sub(300) && ts <= wall + 30;
                ev!("step {i} rr_reply off={off} inside={inside} -> {}", match &res { Ok(Ok(_)) => "delivered", Ok(Err(_)) => "not delivered", Err(_) => "task failed" });
                match res {
                    Ok(Ok(_)) if !inside => { ctx.violate("C05.window.reply_outside_window_surfaced", if ts < wall { "stale" } else { "future" }, format!("step {i}: a reply frame stamped {off} s from the receiver's clock completed the pending request (window is -300 s .. +30 s)")); }
                    Ok(Ok(_)) => ctx.probe("rr_reply_inside_window_delivered"),
                    _ if !inside => { window_rejected += 1; ctx.probe("rr_reply_outside_window_rejected"); }
                    _ => ctx.probe("rr_reply_inside_window_not_delivered"),
                }
                for p in take_panics() { ctx.violate("C05.panic.in_message_handling", "rr_reply", format!("step {i}: {}", p.chars().take(300).collect::<String>())); }
                while events.try_recv().is_ok() {}
                continue;
            }
            let (hidx, htid) = { let h = &hostile[(st["via"].as_u64().unwrap_or(0) % 2) as usize]; (h.0, h.1.clone()) };
            let claimed = match st["claimed"].as_str().unwrap_or("own") {
                "victim" => victim.tid.clone(),
                "peer" => peer.tid.clone(),
                "random" => hex::encode(sr.arr32()),
                _ => htid.clone(),
            };
            let off = st["off"].as_i64().unwrap_or(0);
            let stamp_wall = wall;
            let ts: u64 = if off == i64::MIN { 0 } else if off == i64::MAX { u64::MAX } else { (stamp_wall as i64 + off).max(0) as u64 };
            let mutk = st["mutate"].as_str().unwrap_or("none");
            // ---- build the frame
            // identifiers and other strings inside the message are the peer's to choose: empty, very long,
            // multi-byte characters straddling the lengths code likes to cut at (a 36-byte UUID), NULs
            let msg_id = hostile_string(st["id_style"].as_str().unwrap_or("plain"), &format!("c05-{i}"), st["id_shift"].as_u64().unwrap_or(0) as usize, &mut sr);
            let claimed = match st["src_style"].as_str().unwrap_or("plain") { "plain" => claimed, other => hostile_string(other, &claimed, 0, &mut sr) };
            let target = match st["target_style"].as_str().unwrap_or("none") { "none" => None, "plain" => Some(victim.tid.clone()), other => Some(hostile_string(other, "t", 0, &mut sr)) };
            if st["id_style"].as_str().unwrap_or("plain") != "plain" { ctx.probe("hostile_message_id"); }
            let mk_msg = |mt: DhtMessageType, payload: DhtNetworkOperation, result: Option<DhtNetworkResult>| DhtNetworkMessage {
                message_id: msg_id.clone(), source: claimed.clone(), target: target.clone(), message_type: mt, payload, result, timestamp: ts, ttl: 7, hop_count: 0 };
            let key = key_for(i);
            let value = sr.bytes(st["value_len"].as_u64().unwrap_or(0) as usize);
            let op = match st["op"].as_str().unwrap_or("ping") {
                "put" => DhtNetworkOperation::Put { key, value: value.clone() },
                "get" => DhtNetworkOperation::Get { key },
                "find_node" => DhtNetworkOperation::FindNode { key },
                "find_value" => DhtNetworkOperation::FindValue { key },
                "join" => DhtNetworkOperation::Join,
                "leave" => DhtNetworkOperation::Leave,
                _ => DhtNetworkOperation::Ping,
            };
            let (protocol, mut payload): (String, Vec<u8>) = match kind {
                "dht_req" => ("/dht/1.0.0".into(), postcard::to_stdvec(&mk_msg(DhtMessageType::Request, op.clone(), None)).unwrap_or_default()),
                "oversize" => ("/dht/1.0.0".into(), postcard::to_stdvec(&mk_msg(DhtMessageType::Request, op.clone(), None)).unwrap_or_default()),
                "dht_resp" => {
                    let cnt = st["count"].as_u64().unwrap_or(0) as usize;
                    let sl = st["str_len"].as_u64().unwrap_or(0) as usize;
                    let res = match st["resp"].as_str().unwrap_or("") {
                        "nodes_found" => DhtNetworkResult::NodesFound { key, nodes: (0..cnt.min(600)).map(|j| DHTNode { peer_id: hex::encode(sr.arr32()), address: format!("{}.{}.1.1:9{:03}{}", 1 + j % 200, j % 250, j % 1000, "x".repeat(sl.min(100))), distance: None, reliability: 1.0, cached_dht_key: None }).collect() },
                        "get_success" => DhtNetworkResult::GetSuccess { key, value: sr.bytes(sl), source: claimed.clone() },
                        "value_found" => DhtNetworkResult::ValueFound { key, value: sr.bytes(sl), source: claimed.clone() },
                        "error" => DhtNetworkResult::Error { operation: "y".repeat(sl), error: "z".repeat(sl) },
                        _ => DhtNetworkResult::PongReceived { responder: claimed.clone(), latency: Duration::from_millis(1) },
                    };
                    ("/dht/1.0.0".into(), postcard::to_stdvec(&mk_msg(DhtMessageType::Response, op.clone(), Some(res))).unwrap_or_default())
                }
                "rr" => {
                    let inner = sr.bytes(st["str_len"].as_u64().unwrap_or(0) as usize);
                    let nested = if sr.chance(1, 3) { verif_hooks::encode_envelope("nested", true, inner) } else { inner };
                    (format!("/rr/c05-{i}"), verif_hooks::encode_envelope(&msg_id, sr.chance(1, 2), nested))
                }
                "app" => (format!("c05-topic-{i}-{}{}", "t".repeat(sr.usize_below(3) * 500), if st["id_style"].as_str() == Some("plain") { String::new() } else { msg_id.chars().take(200).collect::<String>() }), sr.bytes(st["rand_len"].as_u64().unwrap_or(0).min(100_000) as usize)),
                _ => (String::new(), Vec::new()),
            };
            if kind == "dht_req" {
                let pad_to = st["pad_to"].as_u64().unwrap_or(0) as usize;
                if pad_to > payload.len() { payload.resize(pad_to, 0); }
            }
            if kind == "oversize" {
                let over = st["over_to"].as_u64().unwrap_or(65537) as usize;
                if over > payload.len() { payload.resize(over, 0); }
            }
            let payload = mutate(mutk, "payload", payload, &mut sr);
            let frame = if kind == "random" { sr.bytes(st["rand_len"].as_u64().unwrap_or(0) as usize) } else {
                mutate(mutk, "wire", verif_hooks::encode_wire(&protocol, payload, &claimed, ts), &mut sr)
            };
            let flen = frame.len() as u64;
            let decoded = verif_hooks::decode_wire(&frame);
            // ---- deliver, with an optional clock jump while in flight
            while events.try_recv().is_ok() {}
            for h in hostile.iter_mut() { while h.2.try_recv().is_ok() {} }
            let store_before: BTreeMap<[u8; 32], Vec<u8>> = dht.read().await.verif_store_entries().await.into_iter().map(|(k, v)| (*k.as_bytes(), v)).collect();
            let ji = st["jump_inflight"].as_i64().unwrap_or(0);
            let win = alloc::window();
            net.inject(hidx, victim.idx, frame.clone(), if ji != 0 { 40 } else { 0 });
            if ji != 0 {
                tokio::time::sleep(Duration::from_millis(5)).await;
                wall = (wall as i64 + ji).max(1_000_000) as u64;
                verif_hooks::set_wall_secs(wall);
                jumps += 1;
                ctx.fault("clock_jump_in_flight");
            }
            tokio::time::sleep(Duration::from_millis(400)).await;
            let (big, peak) = (win.biggest(), win.peak_growth());
            max_big = max_big.max(big.saturating_sub(2 * flen));
            max_peak = max_peak.max(peak.saturating_sub(8 * flen));
            if big > 2 * flen + 1_572_864 || peak > 8 * flen + 4 * 1_048_576 {
                ctx.violate("C05.memory.allocation_not_bounded_by_input", kind, format!("step {i}: a {flen}-byte frame made the node allocate a single block of {big} bytes / peak growth {peak} bytes"));
            }
            // ---- observe
            let mut evs = Vec::new();
            while let Ok(e) = events.try_recv() { if let P2PEvent::Message { topic, source, data } = e { evs.push((topic, source, data)); } }
            let mut replies = Vec::new();
            for h in hostile.iter_mut() { while let Ok((_from, bytes)) = h.2.try_recv() { replies.push((h.1.clone(), bytes)); } }
            let store_after: BTreeMap<[u8; 32], Vec<u8>> = dht.read().await.verif_store_entries().await.into_iter().map(|(k, v)| (*k.as_bytes(), v)).collect();
            let panics = take_panics();
            for p in &panics {
                ctx.violate("C05.panic.in_message_handling", kind, format!("step {i}: {}", p.chars().take(300).collect::<String>()));
            }
            // ---- judge
            let in_window = |t: u64| t >= wall.saturating_sub(300) && t <= wall + 30;
            let mut expect_surface = None;
            let mut expect_reply: Option<&'static str> = None; // Some("any") / Some("none")
            let mut expect_store: Option<([u8; 32], Vec<u8>)> = None;
            let mut verdict = "undecodable";
            if let Some((proto, data, _from, t)) = &decoded {
                if &frame[..] == b"keepalive" { verdict = "keepalive"; }
                else if !in_window(*t) { verdict = "outside_window"; window_rejected += 1; expect_surface = Some(false); expect_reply = Some("none"); }
                else {
                    let is_rr_resp = proto.starts_with("/rr/") && verif_hooks::decode_envelope(data).map(|e| e.1).unwrap_or(false);
                    verdict = "in_window";
                    if !is_rr_resp { expect_surface = Some(true); }
                    if proto == "/dht/1.0.0" {
                        if data.len() > 64 * 1024 { verdict = "dht_oversized"; oversized += 1; expect_reply = Some("none"); }
                        else {
                            match postcard::from_bytes::<DhtNetworkMessage>(data) {
                                Ok(m) if matches!(m.message_type, DhtMessageType::Request) => match &m.payload {
                                    DhtNetworkOperation::Put { key, value } if value.len() <= 512 => { verdict = "put_ok"; expect_reply = Some("any"); expect_store = Some((*key, value.clone())); }
                                    DhtNetworkOperation::Put { .. } => { verdict = "put_too_big"; expect_reply = Some("none"); }
                                    _ => { verdict = "request"; expect_reply = Some("any"); }
                                },
                                Ok(_) => { verdict = "non_request"; expect_reply = Some("none"); }
                                Err(_) => { verdict = "dht_undecodable"; expect_reply = Some("none"); }
                            }
                        }
                    }
                }
            } else { expect_surface = Some(false); expect_reply = Some("none"); }
            ev!("step {i} {kind} mut={mutk} len={flen} off={off} jump_before={jb} jump_inflight={ji} -> {verdict} events={} replies={} store_delta={}", evs.len(), replies.len(), store_after.len() as i64 - store_before.len() as i64);
            // (1) source identity and surfacing
            for (topic, source, data) in &evs {
                if *source != htid {
                    ctx.violate("C05.source.not_connection_identity", if *source == claimed { "claimed_from_used" } else { "other" }, format!("step {i}: event for topic `{}` carries source {} but the frame arrived on the connection of {} (payload claimed {})", topic.chars().take(40).collect::<String>(), source.chars().take(16).collect::<String>(), &htid[..16], claimed.chars().take(16).collect::<String>()));
                }
                match &decoded {
                    Some((proto, d, _, _)) if proto == topic && d == data => {}
                    _ => ctx.violate("C05.surface.event_differs_from_frame", kind, format!("step {i}: surfaced event (topic `{}`, {} bytes) is not the frame that was delivered", topic.chars().take(40).collect::<String>(), data.len())),
                }
            }
            match expect_surface {
                Some(true) if evs.is_empty() => ctx.violate("C05.window.frame_inside_window_not_surfaced", format!("off={}", off_key(decoded.as_ref().map(|d| d.3).unwrap_or(0), wall)), format!("step {i} ({kind}): timestamp is {} s relative to the receiver's clock, inside [-300,+30], but no event was surfaced", rel(decoded.as_ref().map(|d| d.3).unwrap_or(0), wall))),
                Some(false) if !evs.is_empty() => ctx.violate("C05.window.frame_outside_window_surfaced", format!("off={}", off_key(decoded.as_ref().map(|d| d.3).unwrap_or(0), wall)), format!("step {i} ({kind}): {} and yet {} event(s) surfaced", if decoded.is_some() { format!("timestamp is {} s relative to the receiver's clock", rel(decoded.as_ref().map(|d| d.3).unwrap_or(0), wall)) } else { "frame does not decode".into() }, evs.len())),
                _ => {}
            }
            if evs.len() > 1 { ctx.violate("C05.surface.frame_surfaced_more_than_once", kind, format!("step {i}: {} events for one frame", evs.len())); }
            if !evs.is_empty() { surfaced += 1; }
            // (2) replies
            let my_replies: Vec<&(String, Vec<u8>)> = replies.iter().collect();
            match expect_reply {
                Some("none") if !my_replies.is_empty() => {
                    ctx.violate("C05.reject.rejected_message_was_answered", verdict, format!("step {i} ({kind}, {verdict}, {flen} bytes): the node sent {} frame(s) back", my_replies.len()));
                }
                Some("any") if my_replies.is_empty() => {
                    ctx.violate("C05.accept.valid_request_not_answered", verdict, format!("step {i} ({kind}, {verdict}): a well-formed request inside the window and the size limits got no reply"));
                }
                _ => {}
            }
            for (to, bytes) in &my_replies {
                if *to != htid { ctx.violate("C05.source.reply_sent_to_other_peer", kind, format!("step {i}: reply went to {} not to the connection the request came on", &to[..16])); }
                if let (_, Some(m), _) = simnet::decode(bytes) {
                    if let Some(DhtNetworkResult::NodesFound { nodes, .. }) = &m.result {
                        if nodes.len() > 20 { ctx.violate("C05.limit.find_node_reply_exceeds_cap", "", format!("step {i}: reply lists {} nodes", nodes.len())); }
                        if nodes.len() >= 8 { ctx.probe("find_node_reply_full"); }
                    }
                }
            }
            // (3) store
            let mut want = store_before.clone();
            if let Some((k, v)) = &expect_store { want.insert(*k, v.clone()); model.insert(*k, v.clone()); }
            if store_after != want {
                let extra: Vec<String> = store_after.iter().filter(|(k, v)| want.get(*k) != Some(*v)).map(|(k, v)| format!("{}..={}B", hex::encode(&k[..4]), v.len())).collect();
                let missing = want.iter().filter(|(k, v)| store_after.get(*k) != Some(*v)).count();
                ctx.violate("C05.store.contents_differ_from_rules", verdict, format!("step {i} ({kind}, {verdict}): store has unexpected entries [{}] and lacks {missing} expected", extra.join(",")));
            }
            for (k, v) in &store_after { if v.len() > 512 { ctx.violate("C05.limit.stored_value_over_512", "", format!("step {i}: key {} holds {} bytes", hex::encode(&k[..4]), v.len())); } }
            // (4) honest traffic still served
            if st["honest_after"].as_bool().unwrap_or(false) {
                let res = tokio::time::timeout(Duration::from_millis(3000), peer.manager.send_request(&victim.tid, DhtNetworkOperation::Ping)).await;
                let ok = matches!(res, Ok(Ok(DhtNetworkResult::PongReceived { .. })));
                ev!("step {i} honest ping ok={ok}");
                if !ok { ctx.violate("C05.liveness.honest_request_failed_after_hostile_frame", kind, format!("step {i}: honest peer's ping after the hostile frame: {:?}", res.map(|r| r.map(|x| simnet::result_name(&x).to_string()).map_err(|e| e.to_string())))); }
                while let Ok(e) = events.try_recv() { if let P2PEvent::Message { source, .. } = e { if source != peer.tid { ctx.violate("C05.source.not_connection_identity", "honest", format!("step {i}: event of the honest ping carries source {}", source.chars().take(16).collect::<String>())); } } }
            }
        }
        // ---- end state
        let peers = victim.manager.verif_dht_peers().await;
        for (pid, _k, _a, _c) in &peers {
            if !conn_ids.contains(pid) { ctx.violate("C05.retain.peer_table_entry_from_payload", "", format!("peer table holds {} which is not the identity of any connection", pid.chars().take(16).collect::<String>())); }
        }
        let routing = dht.read().await.verif_routing_entries().await;
        let allowed: Vec<[u8; 32]> = conn_ids.iter().map(|t| saorsa_core::dht::derive_dht_key_from_peer_id(t)).collect();
        for nfo in &routing {
            if !allowed.contains(nfo.id.as_bytes()) { ctx.violate("C05.retain.routing_entry_from_payload", "", format!("routing table holds id {} / {} which belongs to no connection", hex::encode(&nfo.id.as_bytes()[..6]), nfo.address)); }
        }
        let rrp = victim.transport.verif_active_requests_len().await;
        let dp = victim.manager.verif_active_operations_len();
        if rrp != 0 || dp != 0 { ctx.violate("C05.retain.pending_tables_not_empty", "", format!("rr={rrp} dht={dp}")); }
        let res = tokio::time::timeout(Duration::from_millis(3000), peer.manager.send_request(&victim.tid, DhtNetworkOperation::Ping)).await;
        if !matches!(res, Ok(Ok(DhtNetworkResult::PongReceived { .. }))) {
            ctx.violate("C05.liveness.receive_loop_dead_at_end", "", "the honest peer's final ping was not answered".to_string());
        }
        for p in take_panics() { ctx.violate("C05.panic.in_message_handling", "end", p.chars().take(300).collect::<String>()); }
        ev!("end: routing={} peers={} store={} surfaced={surfaced} window_rejected={window_rejected} oversized={oversized} jumps={jumps}", routing.len(), peers.len(), model.len());
        if surfaced > 0 { ctx.probe("surfaced"); }
        if window_rejected > 0 { ctx.probe("window_rejected"); }
        if oversized > 0 { ctx.probe("dht_oversized"); }
        if jumps > 0 { ctx.probe("clock_jump"); }
        if routing.len() > 20 { ctx.probe("routing_over_20"); }
        let _ = (max_big, max_peak); // measured figures are judged per step, not traced (see C07)
        if surfaced > 0 && window_rejected > 0 && oversized > 0 && jumps > 0 { ctx.nontrivial = true; }
        ctx.sim_ms += net.now_ms();
        for (k, v) in net.fired() { for _ in 0..v { ctx.fault(&k); } }
        net.shutdown();
        drop(extra_rx);
    });
    drop(rt);
    verif_hooks::clear_wall();
    for k in ["rr_reply_inside_window_delivered", "rr_reply_outside_window_rejected", "surfaced", "window_rejected", "dht_oversized", "clock_jump", "routing_over_20", "find_node_reply_full", "direct_record_ok", "direct_record_over_512_refused", "direct_core_find_node"] { ctx.probes.entry(k.to_string()).or_insert(0); }
    ctx.finish()
}

fn rel(ts: u64, wall: u64) -> i128 { ts as i128 - wall as i128 }
fn off_key(ts: u64, wall: u64) -> String {
    let d = rel(ts, wall);
    if d < -100_000 { "far_past".into() } else if d > 100_000 { "far_future".into() } else { d.to_string() }
}

async fn direct_step(ctx: &mut Ctx, st: &Value, sr: &mut Rng, victim: &simnet::SimNode, dht: &std::sync::Arc<saorsa_core::verif_hooks::YieldingRwLock<saorsa_core::dht::DhtCoreEngine>>, model: &mut BTreeMap<[u8; 32], Vec<u8>>, i: u64) {
    let which = st["direct"].as_str().unwrap_or("record");
    match which {
        "record" | "record_big" => {
            // structure-aware: a genuine record with 1..24 tickets (crosses 512 bytes at 14), serialised
            // without the library's own size check, then optionally mutated; or plain random bytes
            let bytes: Vec<u8> = if sr.chance(3, 4) {
                let nt = if which == "record_big" { sr.range(14, 24) } else { sr.range(1, 15) } as usize;
                let tickets: Vec<Hash> = (0..nt).map(|_| Hash::from(blake3::hash(&sr.bytes(8)))).collect();
                let rec = DataPointer::new(Hash::from(blake3::hash(&sr.bytes(8))), tickets).map(|dp| DhtRecord::new(Hash::from(blake3::hash(&sr.bytes(8))), DhtRecordData::DataPointer(dp), None));
                let raw = rec.ok().and_then(|r| postcard::to_stdvec(&r).ok()).unwrap_or_default();
                let m = *sr.pick(&["none", "none", "flip_x", "truncate_x", "inflate_x", "extend_x"]);
                mutate(m, "x", raw, sr)
            } else {
                let len = if which == "record_big" { *sr.pick(&[513usize, 600, 5000, 131_072]) } else { sr.usize_below(513) };
                sr.bytes(len)
            };
            let len = bytes.len();
            let win = alloc::window();
            let res = DhtRecord::deserialize(&bytes);
            let big = win.biggest();
            if big > 2 * len as u64 + 1_572_864 { ctx.violate("C05.memory.allocation_not_bounded_by_input", "record", format!("DhtRecord::deserialize of {len} bytes allocated a block of {big} bytes")); }
            let ok = res.is_ok();
            if let Ok(rec) = res {
                ctx.probe("direct_record_ok");
                if len > 512 { ctx.violate("C05.limit.record_over_512_accepted", "deserialize", format!("{len}-byte input decoded as a record")); }
                match rec.serialize() {
                    Ok(b) if b.len() > 512 => ctx.violate("C05.limit.record_over_512_accepted", "serialize", format!("serialised record is {} bytes", b.len())),
                    _ => {}
                }
            } else if len > 512 { ctx.probe("direct_record_over_512_refused"); }
            ev!("step {i} direct {which} len={len} ok={ok}");
        }
        "envelope" => {
            let nb = sr.usize_below(300);
            let mut bytes = sr.bytes(nb);
            if sr.chance(1, 2) { bytes = verif_hooks::encode_envelope("id", true, bytes); let n = sr.usize_below(bytes.len() + 1); bytes.truncate(n); }
            let win = alloc::window();
            let r = TransportHandle::parse_request_envelope(&bytes);
            if win.biggest() > 1_572_864 { ctx.violate("C05.memory.allocation_not_bounded_by_input", "envelope", format!("parse_request_envelope of {} bytes allocated {}", bytes.len(), win.biggest())); }
            ev!("step {i} direct envelope len={} some={}", bytes.len(), r.is_some());
        }
        "core_find_node" => {
            let count = *sr.pick(&[0usize, 1, 20, 21, 1000, usize::MAX]);
            let target = DhtKey::from_bytes(sr.arr32());
            let g = dht.read().await;
            let have = g.verif_routing_entries().await.len();
            let resp = g.handle_request(DhtRequestWrapper { id: format!("d{i}"), message: DhtMessage::FindNode { target, count } }).await;
            if let DhtResponse::FindNodeReply { nodes, .. } = &resp.response {
                ctx.probe("direct_core_find_node");
                if nodes.len() > 20 || nodes.len() > count { ctx.violate("C05.limit.find_node_reply_exceeds_cap", "core", format!("count={count} over {have} entries returned {} nodes", nodes.len())); }
            }
            ev!("step {i} direct core_find_node count={count} have={have}");
        }
        "core_store" => {
            let len = *sr.pick(&[0usize, 1, 511, 512, 513, 4096, 100_000]);
            let mut k = key_for(i);
            k[31] = 1;
            let value = sr.bytes(len);
            let g = dht.read().await;
            let resp = g.handle_request(DhtRequestWrapper { id: format!("d{i}"), message: DhtMessage::Store { key: DhtKey::from_bytes(k), value: value.clone(), ttl: Duration::from_secs(60) } }).await;
            let stored = g.verif_store_entries().await.into_iter().any(|(kk, v)| *kk.as_bytes() == k && v == value);
            let acked = matches!(resp.response, DhtResponse::StoreAck { .. });
            if len > 512 && (stored || acked) { ctx.violate("C05.limit.stored_value_over_512", "core", format!("core Store of {len} bytes: acked={acked} stored={stored}")); }
            if len <= 512 && !(stored && acked) { ctx.violate("C05.accept.valid_store_refused", "core", format!("core Store of {len} bytes: acked={acked} stored={stored}")); }
            if stored { model.insert(k, value); }
            ev!("step {i} direct core_store len={len} acked={acked} stored={stored}");
        }
        _ => {
            // handle_dht_message called directly with arbitrary bytes and an arbitrary sender string
            let len = *sr.pick(&[0usize, 3, 100, 65536, 65537, 131_072]);
            let bytes = sr.bytes(len);
            let sender = if sr.chance(1, 2) { String::new() } else { "x".repeat(sr.usize_below(300)) };
            let win = alloc::window();
            let r = victim.manager.handle_dht_message(&bytes, &sender).await;
            if win.biggest() > 2 * len as u64 + 1_572_864 { ctx.violate("C05.memory.allocation_not_bounded_by_input", "handle_dht_message", format!("{len} bytes -> block of {}", win.biggest())); }
            if len > 65536 && r.is_ok() { ctx.violate("C05.limit.oversized_dht_message_not_refused", "direct", format!("{len} bytes accepted")); }
            ev!("step {i} direct handle_dht_message len={len} ok={}", r.is_ok());
        }
    }
}
