//! C04 — replies reach only the matching request from the contacted peer; no leaks.
//!
//! SIM-NET with adversarial delivery and cancellation: concurrent DHT RPCs and
//! application `/rr/` requests between real nodes; the harness sees every frame
//! at the seam and forges with perfect knowledge (pending id replayed on another
//! peer's connection, unknown ids, duplicates, replies after the timeout, genuine
//! reply dropped, client future dropped, 300 simultaneous requests against the
//! cap of 256).

use crate::ev;
use crate::simkit::shrink::drop_chunks;
use crate::simkit::{CheckDef, Ctx, Rng, RunReport, Tier, install_panic_recorder, sim_runtime, take_panics};
use crate::simnet::{self, Frame};
use saorsa_core::dht_network_manager::{DhtMessageType, DhtNetworkMessage, DhtNetworkOperation, DhtNetworkResult};
use saorsa_core::network::P2PEvent;
use saorsa_core::transport_handle::TransportHandle;
use saorsa_core::verif_hooks;
use serde_json::{Value, json};
use std::collections::{BTreeMap, HashMap};
use std::sync::{Arc, Mutex};
use std::time::Duration;

use super::c01::build_world;

pub static DEF: CheckDef = CheckDef {
    id: "C04",
    level: "exploration",
    technique: "deterministic multi-node network simulation with adversarial delivery: concurrent DHT RPCs and /rr/ requests with seeded start times, a forger with full view of the wire injecting replayed/unknown/duplicated/late replies on chosen connections, dropped genuine replies, cancelled client futures, cap overflow; oracle = every outcome is a function of the request's own genuine frames, pending tables bounded and empty at quiescence",
    runs: (1500, 40000),
    generate,
    execute,
    shrink,
    rule: "each run = 2..5 real nodes in a full mesh + one forger stub; 4..24 requests (DHT ping/find-node RPCs and /rr/ requests) with seeded start offsets, each with a plan for its genuine reply (normal, slow = after 50..65% of the timeout, dropped, late, duplicated) and an optional cancellation instant; 0..12 forgeries (right id on a wrong connection, unknown id, cross id from a third party) timed inside the request's life; one run in eight fires 300 simultaneous /rr/ requests; non-trivial = at least one forgery delivered while its target request was pending and at least one cancellation; distinct = distinct hash of the (request, outcome) log",
    real_components: &["TransportHandle::send_request / send_response / receive loop (/rr/ correlation, expected_peer check, cap)", "DhtNetworkManager::send_request -> send_dht_request / wait_for_response / handle_dht_response / sweep_expired_operations"],
    stubbed_components: &["ant-quic: in-memory network", "forger: harness-driven frame injection with a chosen connection identity", "application responder for /rr/ requests (answers through the real send_response)"],
    assumptions: &["a reply from the contacted peer that carries another pending request's id of the same peer is that peer's own (mis)behaviour and completes that other request: not judged"],
};

fn generate(seed: u64, tier: Tier) -> Value {
    let mut r = Rng::new(seed);
    let n = r.range(2, 5);
    let timeout_ms = *r.pick(&[400u64, 1000, 3000]);
    let mut reqs = Vec::new();
    let nreq = r.range(4, if tier == Tier::Quick { 16 } else { 24 });
    for i in 0..nreq {
        let from = r.below(n);
        let mut to = r.below(n);
        if to == from { to = (to + 1) % n; }
        reqs.push(json!({"r": i, "kind": *r.pick(&["dht", "dht", "rr", "rr", "rr"]), "from": from, "to": to, "start_ms": r.below(300),
                         "genuine": *r.pick(&["normal", "normal", "normal", "slow", "slow", "drop", "late", "dup"]), "slow_pct": r.range(50, 65),
                         "cancel_ms": if r.chance(1, 5) { json!(r.range(1, timeout_ms)) } else { Value::Null }}));
    }
    let mut forg = Vec::new();
    for _ in 0..r.below(13) {
        forg.push(json!({"target": r.below(nreq), "kind": *r.pick(&["wrong_sender", "wrong_sender", "unknown_id", "stub_sender"]), "after_ms": r.below(60), "via": r.below(n)}));
    }
    json!({"property": "C04", "seed": seed, "net_seed": r.below(1 << 40), "n": n, "topology": "mesh",
           "edges": (0..n).flat_map(|a| ((a + 1)..n).map(move |b| json!([a, b]))).collect::<Vec<_>>(),
           "ident": if r.chance(1, 2) { "a" } else { "b" }, "k": 8, "timeout_ms": timeout_ms,
           "nodes": (0..n).map(|i| json!({"tid_salt": r.below(1 << 40), "ip": [10, 1, r.below(250), 1 + i], "port": 9000 + i})).collect::<Vec<_>>(),
           "faults": {"silence": [], "slow": [], "drops": [], "dial": []}, "liars": [], "latency_ms": *r.pick(&[1u64, 5, 20]), "jitter_ms": *r.pick(&[0u64, 5, 40]),
           "requests": reqs, "forgeries": forg, "flood": r.chance(1, 8), "flood_then": *r.pick(&["nothing", "connection_lost", "connection_lost", "cancel_half"])})
}

fn shrink(sc: &Value) -> Vec<Value> {
    let mut v = Vec::new();
    if sc["flood"].as_bool() == Some(true) { let mut c = sc.clone(); c["flood"] = json!(false); v.push(c); }
    v.extend(drop_chunks(sc, "forgeries"));
    // requests are referenced by position from forgeries: blank them instead of removing
    if let Some(arr) = sc["requests"].as_array() {
        for i in 0..arr.len() {
            if arr[i]["kind"] == "none" { continue; }
            let mut c = sc.clone();
            c["requests"][i]["kind"] = json!("none");
            v.push(c);
        }
    }
    v
}

fn now_secs() -> u64 {
    std::time::SystemTime::now().duration_since(std::time::UNIX_EPOCH).map(|d| d.as_secs()).unwrap_or(0)
}

#[derive(Clone, Debug)]
enum Outcome { Ok(String), Err(String), Cancelled }

fn execute(sc: &Value) -> RunReport {
    let seed = sc["seed"].as_u64().unwrap_or(0);
    install_panic_recorder();
    let _ = take_panics();
    let rt = sim_runtime(seed);
    let mut ctx = Ctx::new();
    rt.block_on(async {
        let (net, nodes) = match build_world(sc, false).await {
            Ok(x) => x,
            Err(e) => { ctx.harness_error = Some(format!("build_world: {e}")); return; }
        };
        let n = nodes.len();
        let timeout_ms = sc["timeout_ms"].as_u64().unwrap_or(1000);
        let reqs: Vec<Value> = sc["requests"].as_array().cloned().unwrap_or_default();
        let stub_tid = hex::encode(Rng::new(seed ^ 0xf04).arr32());
        let (stub_idx, _rx) = net.add_stub(&stub_tid, "10.223.0.1:7000".parse().unwrap());
        for nd in &nodes { let _ = nd.transport.verif_accept(&stub_tid, "10.223.0.1:7000".parse().unwrap()).await; }

        // ---- plan for genuine replies, applied by the network filter (DHT) and by the responder (/rr/)
        // request r is recognised on the wire by its payload tag (rr) or by its key (dht find-node with key = tag)
        let plan: Arc<Mutex<HashMap<String, String>>> = Arc::new(Mutex::new(HashMap::new())); // message id -> fate of its genuine reply
        let wire_ids: Arc<Mutex<BTreeMap<u64, (String, u64)>>> = Arc::new(Mutex::new(BTreeMap::new())); // r -> (message id, sent at)
        // "slow" = delivered inside the timeout but only after 50..65% of it
        let genuine_of: Vec<String> = reqs.iter().map(|q| match q["genuine"].as_str().unwrap_or("normal") {
            "slow" => format!("slow:{}", timeout_ms * q["slow_pct"].as_u64().unwrap_or(50) / 100),
            g => g.to_string(),
        }).collect();
        {
            let plan = plan.clone();
            let wire_ids = wire_ids.clone();
            let genuine_of = genuine_of.clone();
            net.set_filter(Arc::new(move |f: &Frame| {
                if let Some(m) = &f.dht {
                    match m.message_type {
                        DhtMessageType::Request => {
                            if let DhtNetworkOperation::FindNode { key } = &m.payload {
                                if key[0] == 0xC4 {
                                    let r = u64::from_be_bytes(key[8..16].try_into().unwrap());
                                    wire_ids.lock().unwrap().insert(r, (m.message_id.clone(), f.t_ms));
                                    if let Some(g) = genuine_of.get(r as usize) { plan.lock().unwrap().insert(m.message_id.clone(), g.clone()); }
                                }
                            }
                            None
                        }
                        DhtMessageType::Response => match plan.lock().unwrap().get(&m.message_id).map(|s| s.as_str()) {
                            Some("drop") => Some("drop".into()),
                            Some("late") => Some("late".into()),
                            Some("dup") => Some("dup".into()),
                            Some(x) if x.starts_with("slow:") => Some(x.to_string()),
                            _ => None,
                        },
                        _ => None,
                    }
                } else if let Some((id, is_resp, payload)) = &f.rr {
                    if !*is_resp {
                        if let Some(r) = std::str::from_utf8(payload).ok().and_then(|s| s.strip_prefix("req-")).and_then(|s| s.parse::<u64>().ok()) {
                            wire_ids.lock().unwrap().insert(r, (id.clone(), f.t_ms));
                        }
                    }
                    None
                } else { None }
            }));
        }
        // ---- /rr/ responders (the application side), answering through the real send_response
        let mut responders = Vec::new();
        for nd in &nodes {
            let t: Arc<TransportHandle> = nd.transport.clone();
            let mut ev_rx = t.subscribe_events();
            let genuine_of = genuine_of.clone();
            let me = nd.app_id.clone();
            responders.push(tokio::spawn(async move {
                loop {
                    match ev_rx.recv().await {
                        Ok(P2PEvent::Message { topic, source, data }) => {
                            let Some(proto) = topic.strip_prefix("/rr/") else { continue };
                            let Some((id, is_resp, payload)) = TransportHandle::parse_request_envelope(&data) else { continue };
                            if is_resp { continue; }
                            let tag = String::from_utf8_lossy(&payload).to_string();
                            let Some(r) = tag.strip_prefix("req-").and_then(|s| s.parse::<usize>().ok()) else { continue };
                            let g = genuine_of.get(r).cloned().unwrap_or_default();
                            let reply = format!("reply-{r}-from-{me}").into_bytes();
                            let t2 = t.clone();
                            let proto = proto.to_string();
                            tokio::spawn(async move {
                                match g.as_str() {
                                    "drop" => {}
                                    "late" => { tokio::time::sleep(Duration::from_millis(400_000)).await; let _ = t2.send_response(&source, &proto, &id, reply).await; }
                                    "dup" => { let _ = t2.send_response(&source, &proto, &id, reply.clone()).await; let _ = t2.send_response(&source, &proto, &id, reply).await; }
                                    x if x.starts_with("slow:") => { tokio::time::sleep(Duration::from_millis(x[5..].parse().unwrap_or(0))).await; let _ = t2.send_response(&source, &proto, &id, reply).await; }
                                    _ => { let _ = t2.send_response(&source, &proto, &id, reply).await; }
                                }
                            });
                        }
                        Ok(_) => {}
                        Err(tokio::sync::broadcast::error::RecvError::Lagged(_)) => {}
                        Err(_) => break,
                    }
                }
            }));
        }

        // ---- client requests
        let outcomes: Arc<Mutex<BTreeMap<u64, (Outcome, u64)>>> = Arc::new(Mutex::new(BTreeMap::new()));
        let max_rr_pending = Arc::new(Mutex::new(0usize));
        let mut clients = Vec::new();
        let tids: Vec<String> = nodes.iter().map(|x| x.tid.clone()).collect();
        let apps: Vec<String> = nodes.iter().map(|x| x.app_id.clone()).collect();
        for q in &reqs {
            let kind = q["kind"].as_str().unwrap_or("rr").to_string();
            if kind == "none" { continue; }
            let r = q["r"].as_u64().unwrap_or(0);
            let (from, to) = ((q["from"].as_u64().unwrap_or(0) as usize) % n, (q["to"].as_u64().unwrap_or(1) as usize) % n);
            if from == to { continue; }
            let start = q["start_ms"].as_u64().unwrap_or(0);
            let cancel = q["cancel_ms"].as_u64();
            let mgr = nodes[from].manager.clone();
            let tr = nodes[from].transport.clone();
            let peer = tids[to].clone();
            let outcomes = outcomes.clone();
            let net2 = net.clone();
            clients.push(tokio::spawn(async move {
                tokio::time::sleep(Duration::from_millis(start)).await;
                let fut = async {
                    if kind == "dht" {
                        let mut key = [0u8; 32];
                        key[0] = 0xC4;
                        key[8..16].copy_from_slice(&r.to_be_bytes());
                        match mgr.send_request(&peer, DhtNetworkOperation::FindNode { key }).await {
                            Ok(DhtNetworkResult::NodesFound { key: k, .. }) | Ok(DhtNetworkResult::GetNotFound { key: k, .. }) => Outcome::Ok(format!("dht-reply-key-{}", hex::encode(&k[8..16]))),
                            Ok(other) => Outcome::Ok(format!("dht-other-{}", simnet::result_name(&other))),
                            Err(e) => Outcome::Err(format!("{e}")),
                        }
                    } else {
                        match tr.send_request(&peer, "app", format!("req-{r}").into_bytes(), Duration::from_millis(timeout_ms)).await {
                            Ok(resp) => Outcome::Ok(String::from_utf8_lossy(&resp.data).to_string()),
                            Err(e) => Outcome::Err(format!("{e}")),
                        }
                    }
                };
                let out = match cancel {
                    Some(c) => match tokio::time::timeout(Duration::from_millis(c), fut).await { Ok(o) => o, Err(_) => Outcome::Cancelled },
                    None => fut.await,
                };
                outcomes.lock().unwrap().insert(r, (out, net2.now_ms()));
            }));
        }
        // ---- forger: acts when the target request's id shows up on the wire
        let mut forgers = Vec::new();
        let forged_delivered = Arc::new(Mutex::new(Vec::<(u64, String, u64)>::new())); // (target r, kind, at)
        for (fi, fz) in sc["forgeries"].as_array().cloned().unwrap_or_default().iter().enumerate() {
            let target = fz["target"].as_u64().unwrap_or(0);
            let Some(q) = reqs.get(target as usize).cloned() else { continue };
            if q["kind"] == "none" { continue; }
            let kind = fz["kind"].as_str().unwrap_or("wrong_sender").to_string();
            let after = fz["after_ms"].as_u64().unwrap_or(0);
            let (from, to) = ((q["from"].as_u64().unwrap_or(0) as usize) % n, (q["to"].as_u64().unwrap_or(1) as usize) % n);
            let via = (fz["via"].as_u64().unwrap_or(0) as usize) % n;
            // the forged frame must NOT come on the contacted peer's connection
            let sender_idx = if kind == "stub_sender" || via == to || via == from { stub_idx } else { nodes[via].idx };
            let sender_tid = if sender_idx == stub_idx { stub_tid.clone() } else { tids[via].clone() };
            let is_dht = q["kind"] == "dht";
            let wire_ids = wire_ids.clone();
            let net2 = net.clone();
            let victim_idx = nodes[from].idx;
            let claimed_source = apps[to].clone(); // the payload claims to come from the contacted peer
            let claimed_tid = tids[to].clone();
            let fd = forged_delivered.clone();
            let start = q["start_ms"].as_u64().unwrap_or(0);
            forgers.push(tokio::spawn(async move {
                tokio::time::sleep(Duration::from_millis(start)).await;
                // wait until the request is on the wire (bounded)
                let mut id = None;
                for _ in 0..200 {
                    if let Some((mid, _)) = wire_ids.lock().unwrap().get(&target).cloned() { id = Some(mid); break; }
                    tokio::time::sleep(Duration::from_millis(1)).await;
                }
                let Some(real_id) = id else { return };
                tokio::time::sleep(Duration::from_millis(after)).await;
                // an identifier nobody issued is the forger's to choose: a UUID look-alike, or empty / long /
                // multi-byte characters straddling the lengths code likes to cut at
                let use_id = if kind == "unknown_id" {
                    let mut hr = Rng::new(seed ^ 0x1d ^ ((fi as u64) << 20));
                    let style = *hr.pick(&["plain", "plain", "uni_at_36", "uni_at_36", "uni_at_36", "uni_random", "empty", "long_ascii", "long_uni", "nul"]);
                    if style == "plain" { format!("00000000-dead-4bad-8bad-{:012x}", fi) } else { let shift = hr.usize_below(8); super::c05::hostile_string(style, "x", shift, &mut hr) }
                } else { real_id };
                let frame = if is_dht {
                    let mut key = [0u8; 32];
                    key[0] = 0xC4;
                    key[8..16].copy_from_slice(&(0xF0F0_0000u64 + fi as u64).to_be_bytes()); // forged payload marker
                    let m = DhtNetworkMessage { message_id: use_id, source: claimed_source, target: None, message_type: DhtMessageType::Response,
                        payload: DhtNetworkOperation::FindNode { key }, result: Some(DhtNetworkResult::GetNotFound { key, peers_queried: 0, peers_failed: 0, last_error: None }), timestamp: now_secs(), ttl: 9, hop_count: 1 };
                    verif_hooks::encode_wire("/dht/1.0.0", postcard::to_stdvec(&m).unwrap_or_default(), &claimed_tid, now_secs())
                } else {
                    verif_hooks::encode_wire("/rr/app", verif_hooks::encode_envelope(&use_id, true, format!("FORGED-{fi}").into_bytes()), &claimed_tid, now_secs())
                };
                let _ = sender_tid;
                fd.lock().unwrap().push((target, kind.clone(), net2.now_ms()));
                net2.inject(sender_idx, victim_idx, frame, 0);
            }));
        }
        // ---- optional flood against the cap of 256
        let mut flood_results: Option<(usize, usize, usize)> = None;
        if sc["flood"].as_bool().unwrap_or(false) && n >= 2 {
            let tr = nodes[0].transport.clone();
            let then = sc["flood_then"].as_str().unwrap_or("nothing");
            // the connection-loss variant floods the stub connection, so that losing it disturbs no client request of this run
            let peer = if then == "connection_lost" { net.link(nodes[0].idx, stub_idx); stub_tid.clone() } else { tids[1].clone() };
            let mut hs = Vec::new();
            for i in 0..300u64 {
                let tr = tr.clone();
                let peer = peer.clone();
                hs.push(tokio::spawn(async move {
                    let t0 = tokio::time::Instant::now();
                    let r = tr.send_request(&peer, "flood", format!("flood-{i}").into_bytes(), Duration::from_millis(timeout_ms)).await;
                    (r.is_ok(), t0.elapsed().as_millis() as u64, r.err().map(|e| format!("{e}")).unwrap_or_default())
                }));
            }
            tokio::time::sleep(Duration::from_millis(50)).await;
            let mut pending_mid = nodes[0].transport.verif_active_requests_len().await;
            // with the table full: the connection to the peer holding the pending requests is lost (the requests
            // are still pending until their timeouts), then 40 more requests go to another connected peer
            if then == "connection_lost" {
                nodes[0].transport.verif_connection_lost(&peer).await;
                ctx.fault("connection_lost_with_full_table");
                tokio::time::sleep(Duration::from_millis(5)).await;
                let other = tids[1].clone();
                let mut more = Vec::new();
                for i in 0..40u64 {
                    let tr = tr.clone();
                    let other = other.clone();
                    more.push(tokio::spawn(async move {
                        let t0 = tokio::time::Instant::now();
                        let r = tr.send_request(&other, "flood", format!("more-{i}").into_bytes(), Duration::from_millis(timeout_ms)).await;
                        (r.is_ok(), t0.elapsed().as_millis() as u64)
                    }));
                }
                tokio::time::sleep(Duration::from_millis(20)).await;
                let pending_after = nodes[0].transport.verif_active_requests_len().await;
                if pending_after > 256 {
                    ctx.violate("C04.cap.pending_exceeds_256", "after_connection_loss", format!("{pending_after} /rr/ requests pending at once after the connection to the peer holding {pending_mid} of them was lost and 40 more were sent to another peer"));
                }
                pending_mid = pending_mid.max(pending_after);
                hs.extend(more.into_iter().map(|h| tokio::spawn(async move { let (ok, ms) = h.await.unwrap_or((false, 0)); (ok, ms, if ok { String::new() } else { "more".to_string() }) })));
            }
            if then == "cancel_half" {
                // half of the callers give up (their futures are dropped); the freed slots may be used again, never more
                for h in hs.iter().take(150) { h.abort(); }
                ctx.fault("flood_callers_cancelled");
                tokio::time::sleep(Duration::from_millis(5)).await;
                let after_cancel = nodes[0].transport.verif_active_requests_len().await;
                if after_cancel > 150 {
                    ctx.violate("C04.leak.rr_pending_entries_remain", "flood_cancel", format!("{after_cancel} entries pending 5 ms after 150 of 300 callers dropped their futures (at most 150 can still be waiting)"));
                }
                let mut more = Vec::new();
                for i in 0..200u64 {
                    let tr = tr.clone();
                    let peer = peer.clone();
                    more.push(tokio::spawn(async move {
                        let r = tr.send_request(&peer, "flood", format!("again-{i}").into_bytes(), Duration::from_millis(timeout_ms)).await;
                        (r.is_ok(), 1000u64, "again".to_string())
                    }));
                }
                tokio::time::sleep(Duration::from_millis(20)).await;
                let pending_after = nodes[0].transport.verif_active_requests_len().await;
                if pending_after > 256 {
                    ctx.violate("C04.cap.pending_exceeds_256", "after_cancellations", format!("{pending_after} /rr/ requests pending at once"));
                }
                pending_mid = pending_mid.max(pending_after);
                hs.extend(more);
            }
            *max_rr_pending.lock().unwrap() = pending_mid;
            let mut immediate_refusals = 0;
            let mut timeouts = 0;
            for h in hs {
                if let Ok((ok, ms, err)) = h.await {
                    if !ok && ms < 10 && err.contains("Too many active requests") { immediate_refusals += 1; }
                    else if !ok { timeouts += 1; }
                }
            }
            flood_results = Some((pending_mid, immediate_refusals, timeouts));
            ctx.probe("cap_flood");
        }
        for c in clients { let _ = c.await; }
        for f in forgers { let _ = f.await; }
        // a few pending-table observations were taken along the way; now quiescence
        tokio::time::sleep(Duration::from_millis(2 * timeout_ms + 1000)).await;
        // one more request per node so that the sweep of orphaned DHT operations runs
        for (i, nd) in nodes.iter().enumerate() {
            let peer = tids[(i + 1) % n].clone();
            let _ = tokio::time::timeout(Duration::from_millis(timeout_ms + 500), nd.manager.send_request(&peer, DhtNetworkOperation::Ping)).await;
        }
        tokio::time::sleep(Duration::from_millis(50)).await;

        // ---- oracle
        let outcomes = outcomes.lock().unwrap().clone();
        let forged = forged_delivered.lock().unwrap().clone();
        let wire = wire_ids.lock().unwrap().clone();
        let mut cancelled = 0;
        for q in &reqs {
            if q["kind"] == "none" { continue; }
            let r = q["r"].as_u64().unwrap_or(0);
            let (from, to) = ((q["from"].as_u64().unwrap_or(0) as usize) % n, (q["to"].as_u64().unwrap_or(1) as usize) % n);
            if from == to { continue; }
            let kind = q["kind"].as_str().unwrap_or("rr");
            let genuine = q["genuine"].as_str().unwrap_or("normal");
            ctx.ops += 1;
            let Some((out, _at)) = outcomes.get(&r).cloned() else {
                ctx.violate("C04.request.never_resolved", kind, format!("request {r} ({kind} {from}->{to}) never resolved"));
                continue;
            };
            let nforged = forged.iter().filter(|(t, k, _)| *t == r && k != "unknown_id").count();
            ev!("req {r} {kind} {from}->{to} genuine={genuine} cancel={} forged={nforged} -> {out:?}", q["cancel_ms"]);
            let want_payload = if kind == "rr" { format!("reply-{r}-from-{}", apps[to]) } else { format!("dht-reply-key-{}", hex::encode(r.to_be_bytes())) };
            match &out {
                Outcome::Cancelled => { cancelled += 1; }
                Outcome::Ok(p) => {
                    if *p != want_payload {
                        ctx.violate("C04.request.completed_with_foreign_reply", format!("{kind}:{}", if nforged > 0 { "forged_on_other_connection" } else { "other" }), format!("request {r} ({kind} {from}->{to}) completed with payload `{p}`, the contacted peer's genuine reply is `{want_payload}`"));
                    }
                    if genuine == "drop" || genuine == "late" {
                        ctx.violate("C04.request.completed_without_genuine_reply", kind, format!("request {r}: the genuine reply was {genuine} yet the request completed Ok(`{p}`)"));
                    }
                }
                Outcome::Err(e) => {
                    // a request whose genuine reply was delivered in time must resolve Ok
                    if (genuine == "normal" || genuine == "dup" || genuine == "slow") && q["cancel_ms"].is_null() && wire.contains_key(&r) {
                        ctx.violate("C04.request.failed_although_genuine_reply_was_delivered", format!("{kind}:{}", if nforged > 0 { "after_forgery" } else { "no_forgery" }), format!("request {r} ({kind} {from}->{to}) failed with `{e}` although the contacted peer's reply was delivered in time ({nforged} forged frames were aimed at it)"));
                    }
                }
            }
        }
        if cancelled > 0 { ctx.probe("cancelled_future"); }
        if !forged.is_empty() { ctx.probe("forgery_injected"); }
        if cancelled > 0 && !forged.is_empty() { ctx.nontrivial = true; }
        if let Some((pending_mid, refused, timeouts)) = flood_results {
            ev!("flood pending_mid={pending_mid} refused_immediately={refused} timeouts={timeouts}");
            if pending_mid > 256 {
                ctx.violate("C04.cap.pending_exceeds_256", "", format!("{pending_mid} /rr/ requests pending at once"));
            }
            if refused + 256 < 300 {
                ctx.violate("C04.cap.requests_beyond_cap_not_refused_immediately", "", format!("300 simultaneous requests: only {refused} were refused immediately"));
            }
        }
        // a panic inside a spawned handler is swallowed by the runtime; the recorder has it
        for p in take_panics() {
            ctx.violate("C04.panic.in_reply_handling", "", p.chars().take(300).collect::<String>());
        }
        // ---- pending tables at quiescence
        for (i, nd) in nodes.iter().enumerate() {
            let rr = nd.transport.verif_active_requests_len().await;
            let dht = nd.manager.verif_active_operations_len();
            ev!("quiescence node {i}: rr_pending={rr} dht_pending={dht}");
            if rr != 0 {
                ctx.violate("C04.leak.rr_pending_entries_remain", if cancelled > 0 { "after_cancelled_future" } else { "no_cancellation" }, format!("node {i}: {rr} /rr/ entries remain in the pending table after every request completed and 2x timeout passed"));
            }
            if dht != 0 {
                ctx.violate("C04.leak.dht_pending_entries_remain", if cancelled > 0 { "after_cancelled_future" } else { "no_cancellation" }, format!("node {i}: {dht} DHT operations remain pending at quiescence"));
            }
        }
        ctx.sim_ms += net.now_ms();
        for r in responders { r.abort(); }
        for (k, v) in net.fired() { for _ in 0..v { ctx.fault(&k); } }
        for (_, k, _) in &forged { ctx.fault(&format!("forged_{k}")); }
        net.shutdown();
    });
    drop(rt);
    for k in ["cancelled_future", "forgery_injected", "cap_flood"] { ctx.probes.entry(k.to_string()).or_insert(0); }
    ctx.finish()
}
