//! C07 — damaged log or snapshot data is detected and never replayed as state.
//!
//! SIM-STORE: a seeded history builds a state directory (store A; a second store
//! B with another history supplies records to transplant); 1..4 corruption
//! operators are applied to a clean-shutdown or crash image; a fresh manager
//! reopens it under the counting allocator. Provenance oracle on the result.

use crate::ev;
use crate::simkit::alloc;
use crate::simkit::shrink::drop_chunks;
use crate::simkit::{CheckDef, Ctx, Rng, RunReport, Scratch, Tier, sim_runtime};
use crate::simstore::{self, Files};
use saorsa_core::persistent_state::PersistentStateManager;
use saorsa_core::verif_hooks;
use serde_json::{Value, json};
use std::collections::{BTreeMap, BTreeSet};

use super::c06::{open, parse_wal, to_map};

pub static DEF: CheckDef = CheckDef {
    id: "C07",
    level: "exploration",
    technique: "deterministic storage simulation with corruption injection: seeded histories on the real state manager, then byte flips / overwrites / truncation / appended garbage / duplicated and transplanted records / garbage length prefixes / deleted and duplicated files on the resulting directory image, reopened under a counting allocator; provenance and report oracles against the history model",
    runs: (6000, 300000),
    generate,
    execute,
    shrink,
    rule: "each run = history of 2..30 operations (upsert/delete/batch/checkpoint, rotation threshold from {2,3,5,1000}) on store A and a short history on store B, then 1..4 corruption operators drawn from {flip, overwrite, truncate, append garbage, duplicate record, transplant record from B, garbage length prefix, delete file, duplicate file} on files chosen by role (live log, rotated log, snapshot); one run in three is 'precise': WAL-only directory and exactly one in-place change inside one record body, where the recovered map is compared exactly with the history minus that operation; non-trivial = at least one operator changed a byte recovery reads; distinct = distinct hash of the operator/verdict log",
    real_components: &["PersistentStateManager::new/recover (snapshot loading, WAL replay, integrity tags, torn-tail handling)", "real files in a scratch directory"],
    stubbed_components: &["the attacker/bit-rot is a scripted byte editor"],
    assumptions: &["damage that cannot be told from a shorter or replayed history (truncation exactly at a record boundary, an exact duplicate of a valid record, a deleted file) is not required to be reported; the values recovered must still be genuine"],
};

const T0: u64 = 1_700_000_000;
type Map = BTreeMap<String, String>;

fn gen_ops(r: &mut Rng, n: u64, keys: u64, allow_checkpoint: bool) -> Vec<Value> {
    let mut ops = Vec::new();
    for _ in 0..n {
        let k = r.below(100);
        let op = if k < 55 {
            json!({"op": "upsert", "key": r.below(keys), "len": *r.pick(&[0u64, 1, 8, 40, 120])})
        } else if k < 68 {
            json!({"op": "delete", "key": r.below(keys)})
        } else if k < 85 || !allow_checkpoint {
            let m = r.range(1, 4);
            let items: Vec<Value> = (0..m).map(|_| json!({"key": r.below(keys), "del": r.chance(1, 4), "len": *r.pick(&[0u64, 3, 30])})).collect();
            json!({"op": "batch", "items": items})
        } else {
            json!({"op": "checkpoint"})
        };
        ops.push(op);
    }
    ops
}

fn generate(seed: u64, tier: Tier) -> Value {
    let mut r = Rng::new(seed);
    let precise = r.chance(1, 3);
    let keys = r.range(1, 5);
    let n = r.range(2, if tier == Tier::Quick { 20 } else { 30 });
    let ops = gen_ops(&mut r, n, keys, !precise);
    let nb = r.range(1, 5);
    let ops_b = gen_ops(&mut r, nb, keys, false);
    let rot = *r.pick(&[2u64, 3, 5, 1000, 1000]);
    let mut corr = Vec::new();
    if precise {
        corr.push(json!({"kind": *r.pick(&["flip", "overwrite"]), "role": "wal", "file_pick": r.below(100), "record_pick": r.below(1000), "in_body": true,
                         "off_pick": r.below(100_000), "bit": r.below(8), "len": r.range(1, 6), "fill": r.below(256)}));
    } else {
        for _ in 0..r.range(1, 4) {
            let kind = *r.pick(&["flip", "flip", "overwrite", "truncate", "append_garbage", "dup_record", "transplant", "garbage_len", "delete_file", "dup_file"]);
            corr.push(json!({"kind": kind, "role": *r.pick(&["wal", "wal", "live", "snap"]), "file_pick": r.below(100), "record_pick": r.below(1000), "in_body": r.chance(1, 2),
                             "off_pick": r.below(100_000), "bit": r.below(8), "len": r.range(1, 40), "fill": r.below(256),
                             "glen": *r.pick(&[0u64, 1, 0xFFFF_FFFF, 0x7FFF_FFFF, 0x0100_0000, 65_536, 5_000, 0x0010_0000, 0x0040_0000, 0x0090_0000, 0x009F_FFFF, 0x00A0_0001]), "at_end": r.chance(1, 2)}));
        }
    }
    json!({"property": "C07", "seed": seed, "precise": precise, "keys": keys, "rot": rot, "ops": ops, "ops_b": ops_b, "corr": corr,
           "flush": *r.pick(&["always", "adaptive"]), "crash_image": !precise && r.chance(1, 4)})
}

fn shrink(sc: &Value) -> Vec<Value> {
    let mut v = drop_chunks(sc, "corr");
    v.extend(drop_chunks(sc, "ops"));
    v.extend(drop_chunks(sc, "ops_b"));
    v
}

/// Run a history; returns (final model state, per key all values ever written, tx id -> op index, states after each op).
async fn run_history(mgr: &PersistentStateManager<String>, ops: &[Value], tag: &str, dir: &std::path::Path) -> (Map, BTreeMap<String, BTreeSet<String>>, BTreeMap<u64, usize>, Vec<(usize, Vec<(String, Option<String>)>)>) {
    let mut model = Map::new();
    let mut written: BTreeMap<String, BTreeSet<String>> = BTreeMap::new();
    let mut tx_to_op: BTreeMap<u64, usize> = BTreeMap::new();
    let mut effects: Vec<(usize, Vec<(String, Option<String>)>)> = Vec::new();
    let mut counter = 0u64;
    for (idx, op) in ops.iter().enumerate() {
        let before = super::c06::max_tx(&simstore::read_dir_image(dir));
        let mut eff: Vec<(String, Option<String>)> = Vec::new();
        match op["op"].as_str().unwrap_or("") {
            "upsert" => {
                counter += 1;
                let k = format!("k{}", op["key"].as_u64().unwrap_or(0));
                let v = format!("{tag}{idx}.{counter}.{}", "x".repeat(op["len"].as_u64().unwrap_or(0) as usize));
                if mgr.upsert(k.clone(), v.clone()).await.is_ok() {
                    eff.push((k, Some(v)));
                }
            }
            "delete" => {
                let k = format!("k{}", op["key"].as_u64().unwrap_or(0));
                if mgr.delete(&k).await.is_ok() {
                    eff.push((k, None));
                }
            }
            "batch" => {
                let mut changes: Vec<(String, Option<String>)> = Vec::new();
                for it in op["items"].as_array().cloned().unwrap_or_default() {
                    counter += 1;
                    let k = format!("k{}", it["key"].as_u64().unwrap_or(0));
                    if it["del"].as_bool().unwrap_or(false) {
                        changes.push((k, None));
                    } else {
                        changes.push((k, Some(format!("{tag}b{idx}.{counter}.{}", "y".repeat(it["len"].as_u64().unwrap_or(0) as usize)))));
                    }
                }
                let c2 = changes.clone();
                let ok = mgr
                    .batch_update(move |s| {
                        for (k, v) in &c2 {
                            match v {
                                Some(v) => { s.insert(k.clone(), v.clone()); }
                                None => { s.remove(k); }
                            }
                        }
                        Ok(())
                    })
                    .await
                    .is_ok();
                if ok {
                    // what gets logged is the difference between the state before and after the
                    // closure, one record per key whose final value changed
                    let mut after = model.clone();
                    for (k, v) in &changes {
                        match v { Some(v) => { after.insert(k.clone(), v.clone()); } None => { after.remove(k); } }
                    }
                    let keys: BTreeSet<String> = model.keys().chain(after.keys()).cloned().collect();
                    for k in keys {
                        if model.get(&k) != after.get(&k) {
                            eff.push((k.clone(), after.get(&k).cloned()));
                        }
                    }
                }
            }
            "checkpoint" => {
                let _ = mgr.checkpoint().await;
            }
            _ => {}
        }
        for (k, v) in &eff {
            match v {
                Some(v) => {
                    model.insert(k.clone(), v.clone());
                    written.entry(k.clone()).or_default().insert(v.clone());
                }
                None => {
                    model.remove(k);
                }
            }
        }
        let after = super::c06::max_tx(&simstore::read_dir_image(dir));
        if after > before {
            for t in (before + 1)..=after {
                tx_to_op.insert(t, idx);
            }
        }
        effects.push((idx, eff));
    }
    (model, written, tx_to_op, effects)
}

/// (start offset of length prefix, body length) of every framed record.
fn frames(bytes: &[u8]) -> Vec<(usize, usize)> {
    let mut out = Vec::new();
    let mut pos = 0usize;
    while pos + 4 <= bytes.len() {
        let len = u32::from_le_bytes(bytes[pos..pos + 4].try_into().unwrap()) as usize;
        if len > bytes.len() - pos - 4 {
            break;
        }
        out.push((pos, len));
        pos += 4 + len;
    }
    out
}

fn pick_file(files: &Files, role: &str, pick: u64) -> Option<String> {
    let mut names: Vec<&String> = match role {
        "live" => files.keys().filter(|n| n.as_str() == "state.wal").collect(),
        "snap" => files.keys().filter(|n| n.ends_with(".snap")).collect(),
        _ => files.keys().filter(|n| n.ends_with(".wal")).collect(),
    };
    names.retain(|n| !files[*n].is_empty());
    if names.is_empty() {
        return None;
    }
    names.sort();
    Some(names[(pick as usize) % names.len()].clone())
}

fn execute(sc: &Value) -> RunReport {
    let seed = sc["seed"].as_u64().unwrap_or(0);
    let precise = sc["precise"].as_bool().unwrap_or(false);
    let flush = sc["flush"].as_str().unwrap_or("always").to_string();
    let ops: Vec<Value> = sc["ops"].as_array().cloned().unwrap_or_default();
    let ops_b: Vec<Value> = sc["ops_b"].as_array().cloned().unwrap_or_default();
    let scratch = Scratch::new("c07");
    let dir_a = scratch.path.join("a");
    let dir_b = scratch.path.join("b");
    let dir_img = scratch.path.join("img");
    verif_hooks::set_wall_secs(T0);
    verif_hooks::set_knob("wal_max_entries", sc["rot"].as_u64());
    let rt = sim_runtime(seed);
    let mut ctx = Ctx::new();
    rt.block_on(async {
        // ---- build the two stores
        let Ok(ma) = open(&dir_a, &flush).await else { ctx.harness_error = Some("open A".into()); return };
        let (model, written, tx_to_op, effects) = run_history(&ma, &ops, "a", &dir_a).await;
        drop(ma);
        let Ok(mb) = open(&dir_b, &flush).await else { ctx.harness_error = Some("open B".into()); return };
        let _ = run_history(&mb, &ops_b, "B", &dir_b).await;
        drop(mb);
        let mut files = simstore::read_dir_image(&dir_a);
        let files_b = simstore::read_dir_image(&dir_b);
        files.remove(".state.lock");
        let has_snapshot = files.keys().any(|n| n.ends_with(".snap"));
        ctx.ops = ops.len() as u64;

        // ---- apply corruption operators
        let mut touched_wal_body = false; // a byte inside a framed WAL record changed in place / garbage appended / foreign record
        let mut must_report = false;
        let mut damaged_ops: BTreeSet<usize> = BTreeSet::new(); // operations whose record group was hit (precise mode)
        let mut first_damage: Option<(String, usize)> = None; // (file, offset) for the prefix clause
        let mut only_inplace = true;
        let mut rng = Rng::new(seed ^ 0xC07);
        for c in sc["corr"].as_array().cloned().unwrap_or_default() {
            let kind = c["kind"].as_str().unwrap_or("flip").to_string();
            let role = c["role"].as_str().unwrap_or("wal");
            let Some(name) = pick_file(&files, role, c["file_pick"].as_u64().unwrap_or(0)) else { continue };
            let is_wal = name.ends_with(".wal");
            let mut bytes = files[&name].clone();
            let fr = if is_wal { frames(&bytes) } else { vec![] };
            let note_damage = |first: &mut Option<(String, usize)>, off: usize| {
                if first.as_ref().map(|(f, o)| f == &name && off < *o).unwrap_or(first.is_none()) {
                    *first = Some((name.clone(), off));
                }
            };
            match kind.as_str() {
                "flip" | "overwrite" => {
                    if bytes.is_empty() { continue; }
                    let (off, len) = if is_wal && !fr.is_empty() && c["in_body"].as_bool().unwrap_or(false) {
                        let (start, blen) = fr[(c["record_pick"].as_u64().unwrap_or(0) as usize) % fr.len()];
                        if blen == 0 { continue; }
                        let o = start + 4 + (c["off_pick"].as_u64().unwrap_or(0) as usize) % blen;
                        let l = if kind == "flip" { 1 } else { (c["len"].as_u64().unwrap_or(1) as usize).min(start + 4 + blen - o) };
                        (o, l)
                    } else {
                        let o = (c["off_pick"].as_u64().unwrap_or(0) as usize) % bytes.len();
                        let l = if kind == "flip" { 1 } else { (c["len"].as_u64().unwrap_or(1) as usize).min(bytes.len() - o) };
                        (o, l)
                    };
                    let mut changed = false;
                    if kind == "flip" {
                        bytes[off] ^= 1 << (c["bit"].as_u64().unwrap_or(0) % 8);
                        changed = true;
                    } else {
                        for i in 0..len {
                            let nb = (c["fill"].as_u64().unwrap_or(0) as u8).wrapping_add(i as u8);
                            if bytes[off + i] != nb { changed = true; }
                            bytes[off + i] = nb;
                        }
                    }
                    if !changed { continue; }
                    ev!("corrupt {kind} {name} off={off} len={len}");
                    ctx.fault(&kind);
                    note_damage(&mut first_damage, off);
                    if is_wal {
                        // which record(s) does it hit?
                        let mut in_framed = false;
                        for (start, blen) in &fr {
                            if off + len > *start && off < start + 4 + blen {
                                in_framed = true;
                                if off < start + 4 { only_inplace = false; } // length prefix hit: framing may break
                                let body = &files[&name][start + 4..start + 4 + blen];
                                if let Ok(e) = postcard::from_bytes::<saorsa_core::persistent_state::WalEntry>(body) {
                                    if let Some(op) = tx_to_op.get(&e.transaction_id) { damaged_ops.insert(*op); }
                                }
                            }
                        }
                        if in_framed { touched_wal_body = true; must_report = true; }
                    } else if name.ends_with(".snap") {
                        // only the newest snapshot is read; damage there must be reported
                        let newest = files.keys().filter(|n| n.ends_with(".snap")).max().cloned();
                        if newest.as_deref() == Some(name.as_str()) { must_report = true; }
                        only_inplace = false;
                    }
                }
                "truncate" => {
                    if bytes.is_empty() { continue; }
                    let cut = (c["off_pick"].as_u64().unwrap_or(0) as usize) % bytes.len();
                    ev!("corrupt truncate {name} at {cut} of {}", bytes.len());
                    ctx.fault("truncate");
                    note_damage(&mut first_damage, cut);
                    only_inplace = false;
                    let on_boundary = fr.iter().any(|(s, _)| *s == cut) || cut == 0;
                    if is_wal && !on_boundary { must_report = true; touched_wal_body = true; }
                    if name.ends_with(".snap") {
                        let newest = files.keys().filter(|n| n.ends_with(".snap")).max().cloned();
                        if newest.as_deref() == Some(name.as_str()) { must_report = true; }
                    }
                    bytes.truncate(cut);
                }
                "append_garbage" => {
                    let n = c["len"].as_u64().unwrap_or(4) as usize;
                    let g = rng.bytes(n);
                    ev!("corrupt append_garbage {name} +{n}");
                    ctx.fault("append_garbage");
                    note_damage(&mut first_damage, bytes.len());
                    only_inplace = false;
                    bytes.extend_from_slice(&g);
                    if is_wal { must_report = true; touched_wal_body = true; }
                }
                "dup_record" => {
                    if fr.is_empty() { continue; }
                    let (start, blen) = fr[(c["record_pick"].as_u64().unwrap_or(0) as usize) % fr.len()];
                    let rec = bytes[start..start + 4 + blen].to_vec();
                    ev!("corrupt dup_record {name} record@{start}");
                    ctx.fault("dup_record");
                    only_inplace = false;
                    note_damage(&mut first_damage, bytes.len());
                    bytes.extend_from_slice(&rec);
                }
                "transplant" => {
                    let src: Vec<&Vec<u8>> = files_b.iter().filter(|(n, b)| n.ends_with(".wal") && !b.is_empty()).map(|(_, b)| b).collect();
                    if src.is_empty() || !is_wal { continue; }
                    let sb = src[(c["file_pick"].as_u64().unwrap_or(0) as usize) % src.len()];
                    let fb = frames(sb);
                    if fb.is_empty() { continue; }
                    let (s, l) = fb[(c["record_pick"].as_u64().unwrap_or(0) as usize) % fb.len()];
                    let rec = sb[s..s + 4 + l].to_vec();
                    let at = if c["at_end"].as_bool().unwrap_or(true) || fr.is_empty() { bytes.len() } else { fr[(c["off_pick"].as_u64().unwrap_or(0) as usize) % fr.len()].0 };
                    ev!("corrupt transplant into {name} at {at} ({} bytes from store B)", rec.len());
                    ctx.fault("transplant");
                    only_inplace = false;
                    note_damage(&mut first_damage, at);
                    bytes.splice(at..at, rec);
                    must_report = true;
                    touched_wal_body = true;
                }
                "garbage_len" => {
                    if fr.is_empty() { continue; }
                    let (start, _) = fr[(c["record_pick"].as_u64().unwrap_or(0) as usize) % fr.len()];
                    let g = c["glen"].as_u64().unwrap_or(0xFFFF_FFFF) as u32;
                    if bytes[start..start + 4] == g.to_le_bytes() { continue; }
                    bytes[start..start + 4].copy_from_slice(&g.to_le_bytes());
                    ev!("corrupt garbage_len {name} record@{start} -> {g:#x}");
                    ctx.fault("garbage_len");
                    only_inplace = false;
                    note_damage(&mut first_damage, start);
                    must_report = true;
                    touched_wal_body = true;
                }
                "delete_file" => {
                    ev!("corrupt delete_file {name}");
                    ctx.fault("delete_file");
                    only_inplace = false;
                    note_damage(&mut first_damage, 0);
                    files.remove(&name);
                    continue;
                }
                "dup_file" => {
                    let newname = if is_wal { format!("wal.{:020}.wal", 999_999_000 + c["file_pick"].as_u64().unwrap_or(0)) } else { format!("snapshot.{:020}.snap", 0) };
                    if files.contains_key(&newname) { continue; }
                    ev!("corrupt dup_file {name} -> {newname}");
                    ctx.fault("dup_file");
                    only_inplace = false;
                    note_damage(&mut first_damage, 0);
                    files.insert(newname, bytes.clone());
                    continue;
                }
                _ => {}
            }
            files.insert(name, bytes);
        }
        if ctx.faults.is_empty() {
            return; // nothing applied
        }
        // What must be reported is decided on the FINAL image (a later operator may have
        // deleted or cut off an earlier one's damage): a log holds a framed record that is
        // not byte-identical to a record store A wrote, or bytes that cannot be framed; or
        // the newest snapshot present differs from what store A wrote under that name.
        let orig = simstore::read_dir_image(&dir_a);
        let mut genuine: BTreeSet<Vec<u8>> = BTreeSet::new();
        for (n, b) in &orig {
            if n.ends_with(".wal") {
                for (s0, l0) in frames(b) {
                    genuine.insert(b[s0..s0 + 4 + l0].to_vec());
                }
            }
        }
        let _ = must_report;
        let mut must_report = false;
        for (n, b) in &files {
            if n.ends_with(".wal") {
                let fr = frames(b);
                let framed_end = fr.last().map(|(s0, l0)| s0 + 4 + l0).unwrap_or(0);
                if framed_end != b.len() {
                    must_report = true;
                }
                for (s0, l0) in fr {
                    if !genuine.contains(&b[s0..s0 + 4 + l0]) {
                        must_report = true;
                    }
                }
            }
        }
        if let Some(newest) = files.keys().filter(|n| n.ends_with(".snap")).max() {
            let content = &files[newest];
            let genuine_snapshot = orig.iter().any(|(n, b)| n.ends_with(".snap") && b == content);
            if !genuine_snapshot {
                must_report = true;
            }
        }
        if touched_wal_body || must_report { ctx.nontrivial = true; }

        // ---- reopen under the counting allocator
        let total: u64 = files.values().map(|b| b.len() as u64).sum();
        simstore::materialise(&files, &dir_img);
        let win = alloc::window();
        let reopened = open(&dir_img, &flush).await;
        let peak = win.peak_growth();
        let biggest = win.biggest();
        // measured allocation figures stay out of the trace (they are judged below): under CPU load they
        // differed by a KiB between two processes once in a while, which the determinism audit reports
        ev!("reopen files={} bytes={total}", files.len());
        // slack constant: decoders pre-allocate up to a fixed cap for a declared element count
        // (serde's cautious size hint: 1 MiB worth of elements, ~1.6 MB as a hash table)
        if peak > 16 * total + (3 << 20) {
            ctx.violate("C07.memory.not_proportional_to_files", "", format!("recovery of {total} bytes of files allocated a peak of {peak} bytes (largest single request {biggest})"));
        }
        let m = match reopened {
            Ok(m) => m,
            Err(e) => {
                ctx.violate("C07.recover.did_not_complete", "", format!("reopening the damaged directory returned an error instead of completing: {e}"));
                return;
            }
        };
        let rec = to_map(m.get_all().unwrap_or_default());
        let stats = m.recovery_stats().ok();
        drop(m);
        let shape = {
            let set: BTreeSet<String> = ctx.faults.keys().cloned().collect();
            set.into_iter().collect::<Vec<_>>().join("+")
        };
        // ---- a second restart of the same directory (recovery may have repaired files): the statement
        //      holds for every recovery, so the same clauses are evaluated on what the second one returns
        let mut passes = vec![(rec, stats)];
        match open(&dir_img, &flush).await {
            Ok(m2) => {
                let rec2 = to_map(m2.get_all().unwrap_or_default());
                let stats2 = m2.recovery_stats().ok();
                drop(m2);
                ctx.probe("second_restart");
                if rec2 != passes[0].0 { ctx.probe("second_restart_state_differs_from_first"); }
                passes.push((rec2, stats2));
            }
            Err(e) => ctx.violate("C07.recover.did_not_complete", "second_restart", format!("reopening the directory a second time returned an error: {e}")),
        }
        for (pass, (rec, stats)) in passes.into_iter().enumerate() {
        let shape = if pass == 0 { shape.clone() } else { format!("{shape}:second_restart") };

        // ---- provenance: every recovered value was written for that key in this store
        for (k, v) in &rec {
            let ok = written.get(k).map(|s| s.contains(v)).unwrap_or(false);
            if !ok {
                let elsewhere = written.iter().any(|(k2, s)| k2 != k && s.contains(v));
                ctx.violate(
                    if elsewhere { "C07.value.moved_to_another_key" } else { "C07.value.not_written_by_this_store" },
                    shape.clone(),
                    format!("recovered {k}={} which this store never wrote for that key", &v[..v.len().min(24)]),
                );
            }
        }
        // ---- report: damage that recovery reads must show in the statistics
        if must_report && pass == 0 {
            let reported = stats.as_ref().map(|s| !s.corruption_events.is_empty() || s.entries_failed > 0 || s.data_loss_detected).unwrap_or(false);
            if !reported {
                ctx.violate("C07.report.damage_not_reported", shape.clone(), "bytes that recovery reads were damaged but corruption_events is empty and entries_failed is 0".to_string());
            }
        }
        // ---- precise mode: exactly the damaged operation is missing
        if precise && only_inplace && !has_snapshot && !damaged_ops.is_empty() {
            let mut expect = Map::new();
            for (idx, eff) in &effects {
                if damaged_ops.contains(idx) { continue; }
                for (k, v) in eff {
                    match v { Some(v) => { expect.insert(k.clone(), v.clone()); } None => { expect.remove(k); } }
                }
            }
            ctx.probe("precise_compared");
            if rec != expect {
                ctx.violate("C07.precise.other_records_not_honoured", shape.clone(), format!("one in-place change inside the record(s) of operation(s) {:?}: recovered {:?} but the history without them gives {:?}", damaged_ops, rec, expect));
            }
        }
        // ---- records strictly before the first damaged byte are honoured (WAL-only, single damaged log)
        let adds_records = ctx.faults.contains_key("dup_record") || ctx.faults.contains_key("dup_file");
        if !has_snapshot && !adds_records && sc["corr"].as_array().map(|a| a.len()).unwrap_or(0) == 1 {
            if let Some((fname, off)) = &first_damage {
                if fname.ends_with(".wal") {
                    // operations whose records all lie in logs replayed before `fname`, or in `fname` before `off`
                    let orig = simstore::read_dir_image(&dir_a);
                    let mut logs: Vec<&String> = orig.keys().filter(|n| n.ends_with(".wal")).collect();
                    logs.sort_by(|a, b| ((a.as_str() == "state.wal"), a.as_str()).cmp(&((b.as_str() == "state.wal"), b.as_str())));
                    let mut safe_tx: BTreeSet<u64> = BTreeSet::new();
                    let mut later_tx: BTreeSet<u64> = BTreeSet::new();
                    let mut other_file_tx: BTreeSet<u64> = BTreeSet::new();
                    let mut past = false;
                    for l in logs {
                        let b = &orig[l];
                        let mut pos = 0usize;
                        for e in parse_wal(b) {
                            let sz = 4 + postcard::to_stdvec(&e).map(|v| v.len()).unwrap_or(0);
                            let end = pos + sz;
                            if l == fname && end > *off { past = true; }
                            if past { later_tx.insert(e.transaction_id); } else { safe_tx.insert(e.transaction_id); }
                            if past && l != fname { other_file_tx.insert(e.transaction_id); }
                            pos = end;
                        }
                        if l == fname { past = true; }
                    }
                    // Damage that only cuts or extends the END of one log (truncation, appended bytes) leaves the framing
                    // of every other log intact: operations whose records all lie in logs replayed later are honoured too.
                    let tail_damage_only = ctx.faults.keys().all(|k| k == "truncate" || k == "append_garbage");
                    if tail_damage_only {
                        let uncertain_ops: BTreeSet<usize> = later_tx.iter().filter(|t| !other_file_tx.contains(t)).filter_map(|t| tx_to_op.get(t).copied()).collect();
                        let mut expect = Map::new();
                        let mut uncertain_keys: BTreeSet<String> = BTreeSet::new();
                        for (idx, eff) in &effects {
                            if uncertain_ops.contains(idx) { for (k, _) in eff { uncertain_keys.insert(k.clone()); } continue; }
                            for (k, v) in eff { match v { Some(v) => { expect.insert(k.clone(), v.clone()); } None => { expect.remove(k); } } }
                        }
                        ctx.probe("other_logs_compared");
                        let all_keys: BTreeSet<String> = expect.keys().chain(rec.keys()).cloned().collect();
                        for k in all_keys {
                            if uncertain_keys.contains(&k) { continue; }
                            if rec.get(&k) != expect.get(&k) {
                                ctx.violate("C07.framing.records_in_other_logs_not_honoured", shape.clone(), format!("key {k}: only the end of {fname} was damaged; the records of the other logs give {:?}, recovered {:?}", expect.get(&k), rec.get(&k)));
                                break;
                            }
                        }
                    }
                    let safe_ops: BTreeSet<usize> = safe_tx.iter().filter(|t| !later_tx.contains(t)).filter_map(|t| tx_to_op.get(t).copied()).collect();
                    let later_ops: BTreeSet<usize> = later_tx.iter().filter_map(|t| tx_to_op.get(t).copied()).collect();
                    let mut prefix_state = Map::new();
                    let mut touched_later: BTreeSet<String> = BTreeSet::new();
                    for (idx, eff) in &effects {
                        if safe_ops.contains(idx) && !later_ops.contains(idx) {
                            for (k, v) in eff { match v { Some(v) => { prefix_state.insert(k.clone(), v.clone()); } None => { prefix_state.remove(k); } } }
                        } else {
                            for (k, _) in eff { touched_later.insert(k.clone()); }
                        }
                    }
                    ctx.probe("prefix_compared");
                    let all_keys: BTreeSet<String> = prefix_state.keys().chain(rec.keys()).cloned().collect();
                    for k in all_keys {
                        if touched_later.contains(&k) { continue; }
                        if rec.get(&k) != prefix_state.get(&k) {
                            ctx.violate("C07.prefix.records_before_damage_not_honoured", shape.clone(), format!("key {k}: records before the first damaged byte give {:?}, recovered {:?}", prefix_state.get(&k), rec.get(&k)));
                        }
                    }
                }
            }
        }
        }
        let _ = model;
    });
    drop(rt);
    verif_hooks::set_knob("wal_max_entries", None);
    verif_hooks::clear_wall();
    for k in ["precise_compared", "prefix_compared", "second_restart", "other_logs_compared"] {
        ctx.probes.entry(k.to_string()).or_insert(0);
    }
    drop(scratch);
    ctx.finish()
}
