//! C16 — failing or distrusted peers are sidelined exactly as the stated policy says.
//!
//! SIM-COMP world: an `EvictionManager` with drawn thresholds fed by reporter /
//! trust-updater / marker / forgetter tasks; a `DhtCoreEngine` (its 60 s
//! maintenance task running on the simulated clock) with add / evict / fail /
//! lookup / store clients and a real `EigenTrustEngine` wired in; a
//! `TrustAwarePeerSelector` over a scripted trust source for values the real
//! engine never produces (NaN, < 0, > 1).

use crate::ev;
use crate::simkit::shrink::drop_chunks;
use crate::simkit::{CheckDef, Ctx, Rng, RunReport, Tier, sim_runtime};
use saorsa_core::adaptive::{EigenTrustEngine, NodeStatisticsUpdate, TrustProvider};
use saorsa_core::dht::core_engine::{DhtCoreEngine, DhtKey, NodeCapacity, NodeId, NodeInfo};
use saorsa_core::dht::routing_maintenance::{EvictionManager, EvictionReason, MaintenanceConfig};
use saorsa_core::dht::trust_peer_selector::{TrustAwarePeerSelector, TrustSelectionConfig};
use saorsa_core::peer_record::UserId;
use serde_json::{Value, json};
use std::cell::RefCell;
use std::collections::{BTreeMap, BTreeSet, HashMap, HashSet};
use std::rc::Rc;
use std::sync::Arc;
use std::time::{Duration, SystemTime};

use super::c02::id_in_bucket;

pub static DEF: CheckDef = CheckDef {
    id: "C16",
    level: "exploration",
    technique: "deterministic component simulation: eviction manager, core engine (maintenance task on the simulated clock, real trust engine wired in) and trust-aware selector driven by seeded client tasks; oracle = stated policy model (consecutive failures since last success, trust threshold, explicit mark, precedence), removal model for the routing table, ranking and floor clauses over every selection",
    runs: (2500, 150000),
    generate,
    execute,
    shrink,
    rule: "each run = thresholds drawn (max failures 1..5, trust threshold 0.05..0.5) + 20..120 events over 2..5 tasks from {success, failure, trust update (incl. NaN, <0, >1), mark, forget, candidates?} on 2..8 peers; routing-table operations add/evict/fail/lookup/store on 4..24 ids with a real EigenTrustEngine (trust set through reports and recomputation) and selection on/off; selector calls with candidate lists of 0..64 (ids differing only in low-order bytes included), counts 0..20, scripted trust incl. NaN/out-of-range, query and storage configurations; non-trivial = a candidate set with >= 2 reasons was compared and a storage selection with at least one peer under the floor was made; distinct = distinct hash of the event/verdict log",
    real_components: &["EvictionManager / NodeLivenessState", "DhtCoreEngine (add_node, evict_node, handle_node_failure, find_nodes, store, enable/disable_trust_selection, start_maintenance_tasks)", "TrustAwarePeerSelector", "EigenTrustEngine"],
    stubbed_components: &["scripted TrustProvider for trust values outside what the real engine produces"],
    assumptions: &["every call is one lock section; tasks contribute orderings on the single-threaded runtime"],
};

fn generate(seed: u64, tier: Tier) -> Value {
    let mut r = Rng::new(seed);
    let peers = r.range(2, 8);
    let tasks = r.range(2, 5);
    let n = r.range(20, if tier == Tier::Quick { 90 } else { 120 });
    let mut ev_ops = Vec::new();
    for _ in 0..n {
        let k = r.below(100);
        let p = r.below(peers);
        let mut op = if k < 30 { json!({"op": "failure", "peer": p}) }
            else if k < 45 { json!({"op": "success", "peer": p}) }
            else if k < 62 { json!({"op": "trust", "peer": p, "v": *r.pick(&[0.0f64, 0.049, 0.05, 0.1, 0.149, 0.15, 0.2, 0.49, 0.5, 0.9, 1.0, -1.0, 2.0, f64::NAN])}) }
            else if k < 70 { json!({"op": "mark", "peer": p, "reason": *r.pick(&["group", "stale", "lowtrust"])}) }
            else if k < 78 { json!({"op": "forget", "peer": p}) }
            else { json!({"op": "candidates"}) };
        // NaN is not valid JSON: encode as string
        if op["op"] == "trust" && op["v"].is_null() { op["v"] = json!("nan"); }
        op["task"] = json!(r.below(tasks));
        ev_ops.push(op);
    }
    // routing-table / storage part
    let n_ids = r.range(4, 24);
    let ids: Vec<Value> = (0..n_ids).map(|_| json!({"bucket": if r.chance(1, 2) { r.below(4) } else { r.below(256) }, "salt": r.below(1 << 30)})).collect();
    let mut rt_ops = Vec::new();
    for _ in 0..r.range(10, 60) {
        let k = r.below(100);
        let op = if k < 35 { json!({"op": "add", "id": r.below(n_ids)}) }
            else if k < 47 { json!({"op": "evict", "id": r.below(n_ids)}) }
            else if k < 57 { json!({"op": "fail", "id": r.below(n_ids)}) }
            else if k < 72 { json!({"op": "lookup", "key_salt": r.below(1 << 30), "count": *r.pick(&[1u64, 3, 8, 20])}) }
            else if k < 82 { json!({"op": "store", "key_salt": r.below(1 << 30)}) }
            else if k < 92 { json!({"op": "report", "id": r.below(n_ids), "kind": *r.pick(&["good", "good", "bad", "bad", "uptime"])}) }
            else if k < 96 { json!({"op": "recompute"}) }
            else { json!({"op": "toggle_trust", "on": r.chance(2, 3)}) };
        rt_ops.push(op);
    }
    // selector part
    let mut sel = Vec::new();
    for _ in 0..r.range(2, 8) {
        let m = *r.pick(&[0u64, 1, 2, 3, 8, 20, 64]);
        let lowbytes = r.chance(1, 3);
        let cands: Vec<Value> = (0..m).map(|i| {
            let t = *r.pick(&[0.0f64, 0.05, 0.1, 0.19, 0.2, 0.21, 0.5, 0.5, 0.9, 1.0, -0.5, 1.5, f64::NAN]);
            json!({"salt": r.below(1 << 30), "low": if lowbytes { i + 1 } else { 0 }, "trust": if t.is_nan() { json!("nan") } else { json!(t) }, "dup_trust_of": r.below(m.max(1))})
        }).collect();
        sel.push(json!({"cands": cands, "count": *r.pick(&[0u64, 1, 3, 8, 20]), "storage": r.chance(1, 2), "key_salt": r.below(1 << 30),
                        "equal_trust": r.chance(1, 3), "weight": *r.pick(&[0.0f64, 0.3, 0.5, 1.0]), "floor": *r.pick(&[0.1f64, 0.2, 0.5]), "exclude": r.chance(1, 2)}));
    }
    json!({"property": "C16", "seed": seed, "peers": peers, "tasks": tasks, "max_failures": r.range(1, 5), "trust_threshold": *r.pick(&[0.05f64, 0.15, 0.5]),
           "events": ev_ops, "ids": ids, "rt_ops": rt_ops, "selections": sel, "local_salt": r.below(1 << 30)})
}

fn shrink(sc: &Value) -> Vec<Value> {
    let mut v = drop_chunks(sc, "events");
    v.extend(drop_chunks(sc, "rt_ops"));
    v.extend(drop_chunks(sc, "selections"));
    v
}

fn f(v: &Value) -> f64 {
    if v.as_str() == Some("nan") { f64::NAN } else { v.as_f64().unwrap_or(0.0) }
}

fn pid(p: u64) -> NodeId {
    let mut b = [0x33u8; 32];
    b[0] = p as u8;
    NodeId::from_bytes(b)
}

fn node(id: [u8; 32], n: usize) -> NodeInfo {
    NodeInfo { id: NodeId::from_bytes(id), address: format!("peer-{n}"), last_seen: SystemTime::UNIX_EPOCH + Duration::from_secs(1_700_000_000), capacity: NodeCapacity::default() }
}

fn xor(a: &[u8; 32], b: &[u8; 32]) -> [u8; 32] {
    let mut o = [0u8; 32];
    for i in 0..32 { o[i] = a[i] ^ b[i]; }
    o
}

struct Scripted(HashMap<[u8; 32], f64>);
impl TrustProvider for Scripted {
    fn get_trust(&self, node: &UserId) -> f64 { self.0.get(&node.hash).copied().unwrap_or(0.0) }
    fn update_trust(&self, _from: &UserId, _to: &UserId, _success: bool) {}
    fn get_global_trust(&self) -> HashMap<UserId, f64> { HashMap::new() }
    fn remove_node(&self, _node: &UserId) {}
}

#[derive(Default, Clone)]
struct PeerModel { failures: u32, trust: Option<f64>, mark: Option<String> }

/// Ranking clauses over one selection. `trust_of` = trust as the selector saw it.
fn check_selection(ctx: &mut Ctx, what: &str, key: &[u8; 32], cands: &[[u8; 32]], got: &[[u8; 32]], count: usize, trust_of: &dyn Fn(&[u8; 32]) -> f64) {
    let cset: BTreeSet<[u8; 32]> = cands.iter().cloned().collect();
    let gset: BTreeSet<[u8; 32]> = got.iter().cloned().collect();
    if got.len() > count { ctx.violate("C16.select.more_than_requested", what, format!("{} selected, {} requested", got.len(), count)); }
    if gset.len() != got.len() { ctx.violate("C16.select.duplicate", what, "a peer was selected twice".to_string()); }
    if got.iter().any(|g| !cset.contains(g)) { ctx.violate("C16.select.not_a_candidate", what, "a selected peer is not among the candidates".to_string()); }
    for i in 0..got.len() {
        for j in (i + 1)..got.len() {
            let (a, b) = (&got[i], &got[j]); // a ranked ahead of b
            let (ta, tb) = (trust_of(a), trust_of(b));
            let (da, db) = (xor(a, key), xor(b, key));
            if ta == tb && da > db {
                ctx.violate("C16.rank.farther_ahead_of_closer_equal_trust", format!("{what}:{}", if !(0.0..=1.0).contains(&ta) { "out_of_range_trust" } else if da[..16] == db[..16] { "ids_differ_in_low_bytes_only" } else { "general" }), format!("trust {ta}: peer at distance {} ranked ahead of closer peer at {}", hex::encode(&da[..20]), hex::encode(&db[..20])));
            }
            if da == db && ta < tb {
                ctx.violate("C16.rank.less_trusted_ahead_at_equal_distance", what, format!("equal distance, trust {ta} ranked ahead of {tb}"));
            }
        }
    }
    // also: an unselected candidate must not beat a selected one on both counts
    for c in cands {
        if gset.contains(c) || got.len() < count.min(cands.len()) { continue; }
        if let Some(last) = got.last() {
            let (tc, tl) = (trust_of(c), trust_of(last));
            if tc == tl && xor(c, key) < xor(last, key) && !tc.is_nan() {
                ctx.violate("C16.rank.closer_equal_trust_left_out", format!("{what}:{}", if xor(c, key)[..16] == xor(last, key)[..16] { "ids_differ_in_low_bytes_only" } else { "general" }), format!("an unselected candidate of trust {tc} is closer than the last selected one of the same trust"));
            }
        }
    }
}

fn execute(sc: &Value) -> RunReport {
    let seed = sc["seed"].as_u64().unwrap_or(0);
    let tasks = sc["tasks"].as_u64().unwrap_or(1).max(1);
    let maxf = sc["max_failures"].as_u64().unwrap_or(3) as u32;
    let thr = sc["trust_threshold"].as_f64().unwrap_or(0.15);
    let events: Vec<Value> = sc["events"].as_array().cloned().unwrap_or_default();
    let rt = sim_runtime(seed);
    let ctx = Rc::new(RefCell::new(Ctx::new()));
    let local_set = tokio::task::LocalSet::new();
    let ctx2 = ctx.clone();
    let sc2 = sc.clone();
    local_set.block_on(&rt, async move {
        // ================= (a) eviction policy =================
        let cfg = MaintenanceConfig { max_consecutive_failures: maxf, min_trust_threshold: thr, ..Default::default() };
        let mgr = Rc::new(RefCell::new(EvictionManager::new(cfg)));
        let model: Rc<RefCell<BTreeMap<u64, PeerModel>>> = Rc::new(RefCell::new(BTreeMap::new()));
        let mut hs = Vec::new();
        for t in 0..tasks {
            let mine: Vec<(usize, Value)> = events.iter().cloned().enumerate().filter(|(_, o)| o["task"].as_u64().unwrap_or(0) % tasks == t).collect();
            let (mgr, model, ctx) = (mgr.clone(), model.clone(), ctx2.clone());
            hs.push(tokio::task::spawn_local(async move {
                for (idx, op) in mine {
                    tokio::task::yield_now().await;
                    let p = op["peer"].as_u64().unwrap_or(0);
                    let kind = op["op"].as_str().unwrap_or("");
                    let mut m = model.borrow_mut();
                    let mut g = mgr.borrow_mut();
                    match kind {
                        "failure" => { g.record_failure(&pid(p)); m.entry(p).or_default().failures += 1; }
                        "success" => { g.record_success(&pid(p)); m.entry(p).or_default().failures = 0; }
                        "trust" => { let v = f(&op["v"]); g.update_trust_score(&pid(p), v); m.entry(p).or_default().trust = Some(v); }
                        "mark" => {
                            let (r, label) = match op["reason"].as_str().unwrap_or("group") { "stale" => (EvictionReason::Stale, "Stale"), "lowtrust" => (EvictionReason::LowTrust("marked".into()), "LowTrust"), _ => (EvictionReason::CloseGroupRejection, "CloseGroupRejection") };
                            g.record_eviction(&pid(p), r);
                            m.entry(p).or_default().mark = Some(label.to_string());
                        }
                        "forget" => { g.remove_node(&pid(p)); m.remove(&p); }
                        _ => {}
                    }
                    ev!("#{idx} {kind} p{p}");
                    // ---- candidates must be exactly the policy set, with reasons by precedence
                    let got: BTreeMap<u8, String> = g.get_eviction_candidates().into_iter().map(|(id, r)| (id.as_bytes()[0], match r { EvictionReason::ConsecutiveFailures(n) => format!("ConsecutiveFailures({n})"), EvictionReason::LowTrust(_) => "LowTrust".into(), EvictionReason::CloseGroupRejection => "CloseGroupRejection".into(), EvictionReason::Stale => "Stale".into() })).collect();
                    let mut want: BTreeMap<u8, String> = BTreeMap::new();
                    for (p, pm) in m.iter() {
                        if let Some(mk) = &pm.mark { want.insert(*p as u8, mk.clone()); }
                        else if pm.failures >= maxf { want.insert(*p as u8, format!("ConsecutiveFailures({})", pm.failures)); }
                        else if pm.trust.map(|t| t < thr).unwrap_or(false) { want.insert(*p as u8, "LowTrust".into()); }
                    }
                    let mut c = ctx.borrow_mut();
                    c.ops += 1;
                    let reasons: BTreeSet<String> = want.values().map(|s| s.split('(').next().unwrap_or("").to_string()).collect();
                    if reasons.len() >= 2 { c.probe("candidate_set_with_two_reasons"); }
                    if got != want {
                        let extra: Vec<_> = got.keys().filter(|k| !want.contains_key(k)).collect();
                        let missing: Vec<_> = want.keys().filter(|k| !got.contains_key(k)).collect();
                        let key = if !extra.is_empty() { "extra_candidate" } else if !missing.is_empty() { "missing_candidate" } else { "wrong_reason" };
                        c.violate("C16.evict.candidates_differ_from_policy", format!("{key}:after_{kind}"), format!("after event #{idx} ({kind} p{p}): candidates {got:?}, policy says {want:?} (max failures {maxf}, trust threshold {thr})"));
                    }
                }
            }));
        }
        for h in hs { let _ = h.await; }

        // ================= (b) routing table + storage with a real trust engine =================
        let local = Rng::new(sc2["local_salt"].as_u64().unwrap_or(0)).arr32();
        let idbytes: Vec<[u8; 32]> = sc2["ids"].as_array().cloned().unwrap_or_default().iter().map(|d| id_in_bucket(&local, d["bucket"].as_u64().unwrap_or(0) as usize, d["salt"].as_u64().unwrap_or(0))).collect();
        let trust_engine = Arc::new(EigenTrustEngine::new(HashSet::new()));
        let mut engine = DhtCoreEngine::verif_new(NodeId::from_bytes(local), true).expect("engine");
        engine.start_maintenance_tasks();
        let mut listed: BTreeSet<[u8; 32]> = BTreeSet::new();
        let mut trust_on = false;
        for (idx, op) in sc2["rt_ops"].as_array().cloned().unwrap_or_default().iter().enumerate() {
            tokio::time::sleep(Duration::from_millis(7_001)).await; // lets the 60 s maintenance tick interleave
            let kind = op["op"].as_str().unwrap_or("");
            let pick = |k: &str| (op[k].as_u64().unwrap_or(0) as usize) % idbytes.len().max(1);
            let mut c = ctx2.borrow_mut();
            c.ops += 1;
            match kind {
                "add" => { let i = pick("id"); if engine.add_node(node(idbytes[i], i)).await.is_ok() { listed.insert(idbytes[i]); } }
                "evict" => { let i = pick("id"); let _ = engine.evict_node(&NodeId::from_bytes(idbytes[i]), EvictionReason::ConsecutiveFailures(3)).await; listed.remove(&idbytes[i]); c.probe("evicted"); }
                "fail" => { let i = pick("id"); let _ = engine.handle_node_failure(NodeId::from_bytes(idbytes[i])).await; listed.remove(&idbytes[i]); }
                "report" => {
                    let i = pick("id");
                    let uid = UserId::from_bytes(idbytes[i]);
                    let upd = match op["kind"].as_str().unwrap_or("good") { "good" => NodeStatisticsUpdate::CorrectResponse, "bad" => NodeStatisticsUpdate::FailedResponse, _ => NodeStatisticsUpdate::Uptime(86_400) };
                    trust_engine.update_node_stats(&uid, upd).await;
                }
                "recompute" => { let _ = trust_engine.compute_global_trust().await; }
                "toggle_trust" => {
                    trust_on = op["on"].as_bool().unwrap_or(true);
                    if trust_on { engine.enable_trust_selection_with_storage_config(trust_engine.clone(), TrustSelectionConfig::for_queries(), TrustSelectionConfig::for_storage()); }
                    else { engine.disable_trust_selection(); }
                }
                "lookup" | "store" => {
                    let key = Rng::new(op["key_salt"].as_u64().unwrap_or(0) ^ 0x16).arr32();
                    let table: Vec<[u8; 32]> = engine.verif_routing_entries().await.iter().map(|n| *n.id.as_bytes()).collect();
                    let tset: BTreeSet<[u8; 32]> = table.iter().cloned().collect();
                    if tset != listed {
                        c.violate("C16.table.removed_peer_still_listed_or_listed_peer_missing", kind, format!("table holds {} peers, add/evict/fail history says {}", tset.len(), listed.len()));
                    }
                    if kind == "lookup" {
                        let count = op["count"].as_u64().unwrap_or(8) as usize;
                        let got: Vec<[u8; 32]> = engine.find_nodes(&DhtKey::from_bytes(key), count).await.unwrap_or_default().iter().map(|n| *n.id.as_bytes()).collect();
                        if let Some(bad) = got.iter().find(|g| !listed.contains(*g)) {
                            c.violate("C16.lookup.evicted_or_failed_peer_returned", "", format!("op #{idx}: lookup returned {} which was evicted/failed and not re-added", hex::encode(&bad[..4])));
                        }
                    } else {
                        let receipt = engine.store(&DhtKey::from_bytes(key), vec![1, 2, 3]).await;
                        let Ok(receipt) = receipt else { continue };
                        let got: Vec<[u8; 32]> = receipt.stored_at.iter().map(|n| *n.as_bytes()).collect();
                        if let Some(bad) = got.iter().find(|g| !listed.contains(*g) && **g != local) {
                            c.violate("C16.store.target_not_in_table", "", format!("op #{idx}: storage target {} is not a listed peer", hex::encode(&bad[..4])));
                        }
                        if trust_on {
                            let te = trust_engine.clone();
                            let trust_of = move |id: &[u8; 32]| te.get_trust(&UserId::from_bytes(*id));
                            for g in &got {
                                let t = trust_of(g);
                                if t < 0.2 {
                                    c.violate("C16.store.target_below_storage_floor", "", format!("op #{idx}: storage target {} has trust {t} < 0.2", hex::encode(&g[..4])));
                                }
                            }
                            if table.iter().any(|i| trust_of(i) < 0.2) { c.probe("storage_selection_with_peer_under_floor"); }
                            check_selection(&mut c, "engine_store", &key, &table, &got, 8, &trust_of);
                        } else {
                            // selection disabled: exactly the closest candidates in distance order
                            let mut want = table.clone();
                            want.sort_by_key(|i| xor(i, &key));
                            want.truncate(8);
                            if got != want {
                                c.violate("C16.store.disabled_selection_not_closest_in_order", "", format!("op #{idx}: with trust selection disabled the storage targets are not the closest {} in distance order", want.len()));
                            }
                        }
                    }
                }
                _ => {}
            }
            ev!("rt#{idx} {kind} listed={}", listed.len());
        }
        engine.signal_shutdown();

        // ================= (c) selector with scripted trust =================
        for (si, s) in sc2["selections"].as_array().cloned().unwrap_or_default().iter().enumerate() {
            let key = Rng::new(s["key_salt"].as_u64().unwrap_or(0) ^ 0x5e1).arr32();
            let base = Rng::new(s["key_salt"].as_u64().unwrap_or(0) ^ 0xba5e).arr32();
            let cl = s["cands"].as_array().cloned().unwrap_or_default();
            let mut ids: Vec<[u8; 32]> = Vec::new();
            let mut trust: HashMap<[u8; 32], f64> = HashMap::new();
            for (i, cd) in cl.iter().enumerate() {
                let low = cd["low"].as_u64().unwrap_or(0);
                let id = if low > 0 { let mut b = base; b[31] = low as u8; b[24] = (low >> 3) as u8; b } else { Rng::new(cd["salt"].as_u64().unwrap_or(0) ^ i as u64).arr32() };
                if ids.contains(&id) { continue; }
                let t = if s["equal_trust"].as_bool().unwrap_or(false) && i > 0 { f(&cl[0]["trust"]) } else { f(&cd["trust"]) };
                ids.push(id);
                trust.insert(id, t);
            }
            let count = s["count"].as_u64().unwrap_or(3) as usize;
            let storage = s["storage"].as_bool().unwrap_or(false);
            let cfgq = TrustSelectionConfig { trust_weight: s["weight"].as_f64().unwrap_or(0.3), min_trust_threshold: s["floor"].as_f64().unwrap_or(0.1), exclude_untrusted: s["exclude"].as_bool().unwrap_or(false) };
            let sel = TrustAwarePeerSelector::with_storage_config(Arc::new(Scripted(trust.clone())), cfgq.clone(), TrustSelectionConfig::for_storage());
            let infos: Vec<NodeInfo> = ids.iter().enumerate().map(|(i, id)| node(*id, i)).collect();
            let got: Vec<[u8; 32]> = if storage { sel.select_storage_peers(&DhtKey::from_bytes(key), &infos, count) } else { sel.select_peers(&DhtKey::from_bytes(key), &infos, count) }.iter().map(|n| *n.id.as_bytes()).collect();
            let mut c = ctx2.borrow_mut();
            c.ops += 1;
            ev!("sel#{si} cands={} count={count} storage={storage} -> {}", ids.len(), got.len());
            let tmap = trust.clone();
            let trust_of = move |id: &[u8; 32]| tmap.get(id).copied().unwrap_or(0.0);
            let what = if storage { "selector_storage" } else { "selector_query" };
            check_selection(&mut c, what, &key, &ids, &got, count, &trust_of);
            let (floor, exclude) = if storage { (0.2, true) } else { (cfgq.min_trust_threshold, cfgq.exclude_untrusted) };
            if exclude {
                if ids.iter().any(|i| trust_of(i) < floor) { c.probe("storage_selection_with_peer_under_floor"); }
                for g in &got {
                    if trust_of(g) < floor {
                        c.violate("C16.select.below_floor_selected", what, format!("selected peer has trust {} < floor {floor}", trust_of(g)));
                    }
                }
            }
        }
    });
    drop(rt);
    let mut c = Rc::try_unwrap(ctx).ok().expect("ctx").into_inner();
    for k in ["candidate_set_with_two_reasons", "storage_selection_with_peer_under_floor", "evicted"] { c.probes.entry(k.to_string()).or_insert(0); }
    c.nontrivial = c.probes["candidate_set_with_two_reasons"] > 0 && c.probes["storage_selection_with_peer_under_floor"] > 0;
    c.finish()
}
