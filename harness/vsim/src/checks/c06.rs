//! C06 — acknowledged state survives a crash at any point; recovery is a prefix.
//!
//! SIM-STORE: seeded histories against the real `PersistentStateManager` in a
//! scratch directory; at every instrumented step of write_entry / rotate /
//! checkpoint the directory is captured ("the process died here"), torn copies of
//! the record being written are derived at byte granularity, and every image is
//! reopened by a fresh manager and compared with the model's list of states.
//! Also: clean restarts, repeated crash-recover-continue cycles, death during
//! recovery, injected I/O errors.

use crate::ev;
use crate::simkit::shrink::drop_chunks;
use crate::simkit::{CheckDef, Ctx, Rng, RunReport, Scratch, Tier, sim_runtime};
use crate::simstore::{self, Capture, CaptureRef, Files, Image};
use saorsa_core::persistent_state::{FlushStrategy, PersistentStateManager, RecoveryMode, StateConfig, WalEntry};
use saorsa_core::verif_hooks;
use serde_json::{Value, json};
use std::cell::RefCell;
use std::collections::BTreeMap;
use std::path::Path;
use std::rc::Rc;
use std::time::Duration;

pub static DEF: CheckDef = CheckDef {
    id: "C06",
    level: "fault_enumeration",
    technique: "deterministic storage simulation: seeded operation histories on the real state manager with a crash-point callback in every write path; for each history every reached crash point and (thorough: every, quick: sampled) byte truncation of the record in flight is reopened and compared with a prefix-of-history model; plus crash-recover-continue cycles, death during recovery and injected I/O errors",
    runs: (3000, 60000),
    generate,
    execute,
    shrink,
    rule: "each run = one history of 1..40 (quick) / 1..80 (thorough) operations from {upsert, delete, batch of 1..5 keys incl. failing closure, checkpoint, clean reopen, clock step, crash-and-continue from a drawn image of the previous operation} over 1..6 keys with unique values, flush policy from {Always, Periodic, BufferSize, Adaptive}, rotation threshold from {2,3,5,1000}; for the history ALL reached crash points are captured and checked, torn-record cuts are all (thorough) or 6 per record (quick); one run in four injects one I/O error at a drawn point instead; non-trivial = at least one crash image taken inside a state-changing operation was reopened; distinct = distinct hash of the operation/verdict log",
    real_components: &["PersistentStateManager (upsert, delete, batch_update, checkpoint, recover, WalWriter::write_entry/rotate, cleanup)", "real file system in a scratch directory under /dev/shm"],
    stubbed_components: &["process death = copy of the directory at the callback; power loss with un-synced pages is not modelled"],
    assumptions: &["File writes are unbuffered, so a directory copy at a callback is what a process death leaves", "the integrity key is random per store (not seeded): record bytes differ between runs but lengths and verdicts do not"],
};

const T0: u64 = 1_700_000_000;
type Map = BTreeMap<String, String>;

fn generate(seed: u64, tier: Tier) -> Value {
    let mut r = Rng::new(seed);
    let flush = *r.pick(&["always", "always", "periodic", "buffer", "adaptive"]);
    let rot = *r.pick(&[2u64, 3, 5, 1000]);
    let keys = r.range(1, 6);
    let max_ops = if tier == Tier::Quick { 40 } else { 80 };
    let nops = if r.chance(1, 2) { r.range(1, 6) } else { r.range(1, max_ops) };
    let mut ops = Vec::new();
    for i in 0..nops {
        let k = r.below(100);
        let op = if k < 40 {
            json!({"op": "upsert", "key": r.below(keys), "len": *r.pick(&[0u64, 1, 8, 40, 200])})
        } else if k < 52 {
            json!({"op": "delete", "key": r.below(keys)})
        } else if k < 67 {
            let m = r.range(1, 5);
            let items: Vec<Value> = (0..m).map(|_| json!({"key": r.below(keys), "del": r.chance(1, 4), "len": *r.pick(&[0u64, 3, 30])})).collect();
            json!({"op": "batch", "items": items, "fail": r.chance(1, 6)})
        } else if k < 79 {
            json!({"op": "checkpoint"})
        } else if k < 85 {
            json!({"op": "reopen"})
        } else if k < 92 {
            json!({"op": "clock", "secs": *r.pick(&[0i64, 1, 1, -1, 3600])})
        } else if i > 0 {
            json!({"op": "crash", "pick": r.below(1000)})
        } else {
            json!({"op": "upsert", "key": r.below(keys), "len": 4})
        };
        ops.push(op);
    }
    let mode = if r.chance(1, 4) { "ioerr" } else { "crash" };
    json!({"property": "C06", "seed": seed, "flush": flush, "rot": rot, "keys": keys, "ops": ops, "mode": mode,
           "fail_at": r.below(nops * 4 + 4), "torn_cuts": if tier == Tier::Quick { 6 } else { 0 }})
}

fn shrink(sc: &Value) -> Vec<Value> {
    let mut v = drop_chunks(sc, "ops");
    if sc["rot"].as_u64() != Some(1000) {
        let mut c = sc.clone();
        c["rot"] = json!(1000);
        v.push(c);
    }
    v
}

pub fn flush_of(s: &str) -> FlushStrategy {
    match s {
        "always" => FlushStrategy::Always,
        "periodic" => FlushStrategy::Periodic(Duration::from_secs(1)),
        "buffer" => FlushStrategy::BufferSize(4),
        _ => FlushStrategy::Adaptive,
    }
}

pub async fn open(dir: &Path, flush: &str) -> Result<PersistentStateManager<String>, String> {
    // The store draws its integrity key from OS randomness when the directory has none. A key
    // derived from the run seed and the directory name is put in place first, so that every
    // byte on disk - and any behaviour that depends on tag values - replays exactly.
    let key_path = dir.join(".state.key");
    if !key_path.exists() {
        let _ = std::fs::create_dir_all(dir);
        let name = dir.file_name().and_then(|n| n.to_str()).unwrap_or("");
        let tag = if name.starts_with('i') && name.len() <= 3 { "img".to_string() } else { name.to_string() };
        let mut r = crate::simkit::Rng::new(crate::simkit::run_seed() ^ crate::simkit::rng::str_hash(&tag));
        let _ = std::fs::write(&key_path, r.bytes(32));
    }
    let cfg = StateConfig {
        state_dir: dir.to_path_buf(),
        flush_strategy: flush_of(flush),
        checkpoint_interval: Duration::from_secs(300),
        enable_compression: false,
        recovery_mode: RecoveryMode::Standard,
        max_state_size: 1 << 30,
    };
    PersistentStateManager::<String>::new(cfg).await.map_err(|e| format!("{e}"))
}

pub fn to_map(m: std::collections::HashMap<String, String>) -> Map {
    m.into_iter().collect()
}

/// Parse a WAL file with the documented framing (u32 LE length + postcard WalEntry).
pub fn parse_wal(bytes: &[u8]) -> Vec<WalEntry> {
    let mut out = Vec::new();
    let mut pos = 0usize;
    while pos + 4 <= bytes.len() {
        let len = u32::from_le_bytes(bytes[pos..pos + 4].try_into().unwrap()) as usize;
        pos += 4;
        if len > bytes.len() - pos {
            break;
        }
        if let Ok(e) = postcard::from_bytes::<WalEntry>(&bytes[pos..pos + len]) {
            out.push(e);
        }
        pos += len;
    }
    out
}

pub fn max_tx(files: &Files) -> u64 {
    files
        .iter()
        .filter(|(n, _)| n.ends_with(".wal"))
        .flat_map(|(_, b)| parse_wal(b).into_iter().map(|e| e.transaction_id))
        .max()
        .unwrap_or(0)
}

fn short(m: &Map) -> String {
    let v: Vec<String> = m.iter().map(|(k, v)| format!("{k}={}", &v[..v.len().min(10)])).collect();
    format!("{{{}}}", v.join(","))
}

struct St {
    states: Vec<Map>,
    tx_of_state: Vec<u64>,
    flush: String,
    live: std::path::PathBuf,
    imgdir: std::path::PathBuf,
    torn_cuts: usize,
    img_counter: u64,
}

/// Reopen an image with a fresh manager; return (recovered map, probe tx id).
async fn reopen_image(st: &mut St, files: &Files, with_lock: bool) -> Result<(Map, u64), String> {
    st.img_counter += 1;
    let dir = st.imgdir.join(format!("i{}", st.img_counter % 4));
    let mut f = files.clone();
    if with_lock {
        f.insert(".state.lock".into(), vec![]);
    }
    simstore::materialise(&f, &dir);
    let m = open(&dir, &st.flush).await?;
    let map = to_map(m.get_all().map_err(|e| format!("{e}"))?);
    let _ = m.upsert("__probe".into(), "p".into()).await;
    let after = simstore::read_dir_image(&dir);
    let tx = after
        .iter()
        .filter(|(n, _)| n.ends_with(".wal"))
        .flat_map(|(_, b)| parse_wal(b))
        .filter(|e| e.key == "__probe")
        .map(|e| e.transaction_id)
        .max()
        .unwrap_or(0);
    drop(m);
    Ok((map, tx))
}

/// Verify one image. `next` = state the in-progress operation would produce.
/// Returns the matched state index.
async fn verify_image(st: &mut St, ctx: &mut Ctx, img: &Image, next: Option<&Map>, opkind: &str, sample_lock: bool) -> Option<usize> {
    let label = img.label.split('@').next().unwrap_or("").to_string();
    let key = format!("{label}:{opkind}");
    ctx.probe("images_checked");
    let (map, probe_tx) = match reopen_image(st, &img.files, false).await {
        Ok(x) => x,
        Err(e) => {
            ctx.violate("C06.recover.reopen_failed", key, format!("image {} of op #{}: reopening failed: {e}", img.label, img.op_index));
            return None;
        }
    };
    let always = st.flush == "always";
    let acked = img.acked.min(st.states.len() - 1);
    let lo = if always { acked } else { 0 };
    let mut matched: Option<usize> = None;
    if img.in_progress {
        if let Some(n) = next {
            if &map == n {
                matched = Some(acked + 1);
            }
        }
    }
    if matched.is_none() {
        for j in (0..=acked).rev() {
            if st.states[j] == map {
                matched = Some(j);
                break;
            }
        }
    }
    ev!("image op#{} {} acked={} -> {}", img.op_index, img.label, acked, matched.map(|j| format!("S{j}")).unwrap_or_else(|| "NO-PREFIX".into()));
    match matched {
        None => {
            ctx.violate(
                "C06.recover.not_a_prefix",
                key.clone(),
                format!("image {} of op #{} ({opkind}): recovered {} equals no state S0..S{}{}; last acknowledged {}", img.label, img.op_index, short(&map), acked, if img.in_progress { "+next" } else { "" }, short(&st.states[acked])),
            );
        }
        Some(j) if j < lo => {
            ctx.violate(
                "C06.recover.lost_acknowledged",
                key.clone(),
                format!("image {} of op #{} ({opkind}), flush-always: recovered S{j} but {} operations had been acknowledged", img.label, img.op_index, acked),
            );
        }
        _ => {}
    }
    if let Some(j) = matched {
        // equal states (a delete of a missing key, a no-op batch) make the durable prefix
        // ambiguous: the transaction-id floor comes from the earliest state that matches
        let j_min = (0..=j.min(st.states.len() - 1)).find(|i| st.states[*i] == map).unwrap_or(j);
        let j = j_min;
        let floor = if j < st.tx_of_state.len() { st.tx_of_state[j] } else { st.tx_of_state.last().copied().unwrap_or(0) };
        if probe_tx == 0 {
            ctx.violate(
                "C06.wal.record_after_recovery_unreadable",
                key.clone(),
                format!("image {} of op #{}: a record written right after reopening cannot be framed in the log (it follows leftover bytes)", img.label, img.op_index),
            );
        } else if probe_tx <= floor {
            ctx.violate(
                "C06.txid.moved_backwards",
                key.clone(),
                format!("image {} of op #{}: first record after reopen got transaction id {probe_tx}, not above {floor} used by recovered state S{j}", img.label, img.op_index),
            );
        }
    }
    if sample_lock {
        // death during recovery: the lock file is all that such a death adds
        ctx.probe("recovery_death_images");
        match reopen_image(st, &img.files, true).await {
            Ok((m2, _)) => {
                if m2 != map {
                    ctx.violate("C06.recover.death_during_recovery_differs", key, format!("image {}: reopening after a death during recovery gives {} instead of {}", img.label, short(&m2), short(&map)));
                }
            }
            Err(e) => ctx.violate("C06.recover.reopen_failed", format!("{key}:lock"), format!("reopen with stale lock failed: {e}")),
        }
    }
    matched
}

/// Derive torn images between each (before_record, after_record) pair.
fn derive_torn(images: &[Image], cuts: usize, rng: &mut Rng) -> Vec<Image> {
    let mut out = Vec::new();
    let mut before: Option<&Image> = None;
    for img in images {
        if img.label == "wal.before_record" {
            before = Some(img);
        } else if img.label == "wal.after_record" {
            if let Some(b) = before {
                let l0 = b.files.get("state.wal").map(|v| v.len()).unwrap_or(0);
                let full = img.files.get("state.wal").cloned().unwrap_or_default();
                let l1 = full.len();
                if l1 > l0 + 1 {
                    let all: Vec<usize> = ((l0 + 1)..l1).collect();
                    let chosen: Vec<usize> = if cuts == 0 || all.len() <= cuts {
                        all
                    } else {
                        // always the edges of the length prefix, then drawn positions
                        let mut c = vec![l0 + 1, l0 + 3, l0 + 4, l1 - 1];
                        while c.len() < cuts {
                            c.push(l0 + 1 + rng.usize_below(l1 - l0 - 1));
                        }
                        c.sort();
                        c.dedup();
                        c.into_iter().filter(|x| *x > l0 && *x < l1).collect()
                    };
                    for cut in chosen {
                        let mut f = b.files.clone();
                        f.insert("state.wal".into(), full[..cut].to_vec());
                        out.push(Image { label: format!("torn@{}", cut - l0), files: f, op_index: b.op_index, acked: b.acked, in_progress: b.in_progress });
                    }
                }
            }
            before = None;
        }
    }
    out
}

fn execute(sc: &Value) -> RunReport {
    let seed = sc["seed"].as_u64().unwrap_or(0);
    let flush = sc["flush"].as_str().unwrap_or("always").to_string();
    let ops: Vec<Value> = sc["ops"].as_array().cloned().unwrap_or_default();
    let ioerr = sc["mode"].as_str() == Some("ioerr");
    let scratch = Scratch::new("c06");
    let live = scratch.path.join("live");
    let imgdir = scratch.path.join("img");
    std::fs::create_dir_all(&live).expect("live");
    verif_hooks::set_wall_secs(T0);
    verif_hooks::set_knob("wal_max_entries", sc["rot"].as_u64());
    let injectable: Vec<String> = ["wal.before_record", "wal.after_size", "rotate.begin", "rotate.after_rename", "checkpoint.tmp_created", "checkpoint.after_header", "checkpoint.after_data", "checkpoint.after_rename", "checkpoint.after_wal_cleanup"].iter().map(|s| s.to_string()).collect();
    let cap: CaptureRef = Rc::new(RefCell::new(Capture { dir: live.clone(), max_images: 4000, injectable, ..Default::default() }));
    simstore::install(&cap);
    let rt = sim_runtime(seed);
    let mut ctx = Ctx::new();
    let mut rng = Rng::new(seed ^ 0xC06);
    let mut st = St { states: vec![Map::new()], tx_of_state: vec![0], flush: flush.clone(), live: live.clone(), imgdir, torn_cuts: sc["torn_cuts"].as_u64().unwrap_or(6) as usize, img_counter: 0 };
    let fail_at = sc["fail_at"].as_u64().unwrap_or(0);

    rt.block_on(async {
        let mut mgr = match open(&live, &flush).await {
            Ok(m) => Some(m),
            Err(e) => {
                ctx.harness_error = Some(format!("initial open failed: {e}"));
                return;
            }
        };
        if ioerr {
            cap.borrow_mut().fail_at = Some(fail_at);
        }
        let mut last_images: Vec<(Image, Option<usize>)> = Vec::new();
        let mut value_counter = 0u64;
        'ops: for (idx, op) in ops.iter().enumerate() {
            let kind = op["op"].as_str().unwrap_or("").to_string();
            let acked = st.states.len() - 1;
            {
                let mut c = cap.borrow_mut();
                c.op_index = idx;
                c.acked = acked;
                c.images.clear();
                c.injected = None;
            }
            let cur = st.states[acked].clone();
            let m = mgr.as_ref().expect("mgr");
            let tx_before = max_tx(&simstore::read_dir_image(&live));
            match kind.as_str() {
                "upsert" | "delete" | "batch" => {
                    // ---- build the operation and the state it would produce
                    let mut next = cur.clone();
                    let mut expect_err = false;
                    let res: Result<(), String>;
                    cap.borrow_mut().in_progress = true;
                    cap.borrow_mut().enabled = true;
                    if kind == "upsert" {
                        value_counter += 1;
                        let k = format!("k{}", op["key"].as_u64().unwrap_or(0));
                        let v = format!("v{idx}.{value_counter}.{}", "x".repeat(op["len"].as_u64().unwrap_or(0) as usize));
                        next.insert(k.clone(), v.clone());
                        ev!("op#{idx} upsert {k}");
                        res = m.upsert(k, v).await.map(|_| ()).map_err(|e| format!("{e}"));
                    } else if kind == "delete" {
                        let k = format!("k{}", op["key"].as_u64().unwrap_or(0));
                        next.remove(&k);
                        ev!("op#{idx} delete {k}");
                        res = m.delete(&k).await.map(|_| ()).map_err(|e| format!("{e}"));
                    } else {
                        let mut changes: Vec<(String, Option<String>)> = Vec::new();
                        for it in op["items"].as_array().cloned().unwrap_or_default() {
                            value_counter += 1;
                            let k = format!("k{}", it["key"].as_u64().unwrap_or(0));
                            if it["del"].as_bool().unwrap_or(false) {
                                changes.push((k, None));
                            } else {
                                changes.push((k, Some(format!("b{idx}.{value_counter}.{}", "y".repeat(it["len"].as_u64().unwrap_or(0) as usize)))));
                            }
                        }
                        let fail = op["fail"].as_bool().unwrap_or(false);
                        expect_err = fail;
                        if !fail {
                            for (k, v) in &changes {
                                match v {
                                    Some(v) => { next.insert(k.clone(), v.clone()); }
                                    None => { next.remove(k); }
                                }
                            }
                        }
                        ev!("op#{idx} batch {} changes fail={fail}", changes.len());
                        res = m
                            .batch_update(move |s| {
                                for (k, v) in &changes {
                                    match v {
                                        Some(v) => { s.insert(k.clone(), v.clone()); }
                                        None => { s.remove(k); }
                                    }
                                }
                                if fail {
                                    Err(saorsa_core::P2PError::Storage(saorsa_core::error::StorageError::Database("closure refuses".to_string().into())))
                                } else {
                                    Ok(())
                                }
                            })
                            .await
                            .map_err(|e| format!("{e}"));
                    }
                    cap.borrow_mut().enabled = false;
                    cap.borrow_mut().in_progress = false;
                    ctx.ops += 1;
                    let injected = cap.borrow().injected.clone();
                    let mem = to_map(m.get_all().unwrap_or_default());
                    let changes_state = next != cur;
                    // ---- acknowledgement handling
                    let mut op_acked = false;
                    match (&res, expect_err, &injected) {
                        (Ok(()), false, _) => {
                            op_acked = true;
                            if mem != next {
                                ctx.violate("C06.memory.state_differs", kind.clone(), format!("op #{idx}: acknowledged but get_all() = {} instead of {}", short(&mem), short(&next)));
                            }
                        }
                        (Err(_), true, _) => {
                            if mem != cur {
                                ctx.violate("C06.batch.failed_closure_changed_state", "", format!("op #{idx}: batch closure returned Err but get_all() changed to {}", short(&mem)));
                            }
                        }
                        (Ok(()), true, _) => {
                            ctx.violate("C06.batch.failed_closure_acknowledged", "", format!("op #{idx}: batch closure returned Err but batch_update returned Ok"));
                        }
                        (Err(e), false, Some(point)) => {
                            ctx.fault("io_error_injected");
                            ev!("op#{idx} failed by injected error at {point}: {e}");
                            // memory must describe a prefix: the old state or the new one
                            if mem == next && changes_state {
                                op_acked = true; // applied in memory although reported failed: still a prefix
                                ctx.probe("ioerr_applied_in_memory");
                            } else if mem != cur {
                                ctx.violate("C06.ioerr.memory_not_prefix", format!("{point}:{kind}"), format!("op #{idx} failed at {point}; get_all() = {} is neither the old nor the new state", short(&mem)));
                                break 'ops;
                            }
                        }
                        (Err(e), false, None) => {
                            // An error is not an acknowledgement, so by itself it breaks nothing the
                            // property states. In a fault-free run, though, operations must succeed
                            // (otherwise the check would be vacuous); after an injected fault a store
                            // that keeps refusing is tolerated and the history ends here.
                            if cap.borrow().fail_at.is_none() && ioerr {
                                ctx.probe("errors_after_injected_fault");
                            } else {
                                ctx.violate("C06.op.unexpected_error", kind.clone(), format!("op #{idx} returned error without any injected fault: {e}"));
                            }
                            break 'ops;
                        }
                    }
                    // ---- images of this operation
                    let mut images: Vec<Image> = cap.borrow().images.clone();
                    let torn = derive_torn(&images, st.torn_cuts, &mut rng);
                    ctx.probe_n("torn_images", torn.len() as u64);
                    images.extend(torn);
                    if images.iter().any(|i| i.label.starts_with("rotate")) {
                        ctx.probe("rotation_inside_operation");
                    }
                    last_images.clear();
                    let next_ref = if expect_err { None } else { Some(&next) };
                    for (n, img) in images.iter().enumerate() {
                        let j = verify_image(&mut st, &mut ctx, img, next_ref, &kind, n % 5 == 2).await;
                        last_images.push((img.clone(), j));
                        ctx.nontrivial = true;
                    }
                    if op_acked {
                        st.states.push(next.clone());
                        let tx_after = max_tx(&simstore::read_dir_image(&live));
                        if changes_state || kind != "batch" {
                            if tx_after <= tx_before && (kind != "batch" || changes_state) {
                                ctx.violate("C06.txid.moved_backwards", format!("live:{kind}"), format!("op #{idx}: highest transaction id in the logs did not grow ({tx_before} -> {tx_after})"));
                            }
                        }
                        st.tx_of_state.push(tx_after.max(tx_before));
                    }
                    // after-op image. After an acknowledged operation nothing is in progress. After an
                    // operation that reported an injected I/O error its record may still have become
                    // durable: it was issued, so the state including it is still a prefix of the issued
                    // operations; memory and disk then disagree and the history stops here.
                    let failed_by_injection = injected.is_some() && res.is_err() && !expect_err;
                    let after = Image { label: "after_op".into(), files: simstore::read_dir_image(&live), op_index: idx, acked: st.states.len() - 1, in_progress: false };
                    let j = verify_image(&mut st, &mut ctx, &after, None, &kind, false).await;
                    last_images.push((after, j));
                    if failed_by_injection && j.is_none() {
                        // what a restart would show differs from what the running process shows
                        ctx.violate("C06.ioerr.memory_and_disk_disagree", format!("{}:{kind}", injected.clone().unwrap_or_default()),
                            format!("op #{idx} failed with an I/O error at {}; get_all() now shows {} but reopening the directory does not", injected.clone().unwrap_or_default(), short(&mem)));
                        break 'ops;
                    }
                }
                "checkpoint" => {
                    ev!("op#{idx} checkpoint");
                    cap.borrow_mut().in_progress = false;
                    cap.borrow_mut().enabled = true;
                    let res = m.checkpoint().await;
                    cap.borrow_mut().enabled = false;
                    ctx.ops += 1;
                    ctx.probe("checkpoint");
                    let injected = cap.borrow().injected.clone();
                    if let Err(e) = &res {
                        if injected.is_none() {
                            ctx.violate("C06.op.unexpected_error", "checkpoint", format!("op #{idx} checkpoint failed without injected fault: {e}"));
                        } else {
                            ctx.fault("io_error_injected");
                        }
                    }
                    let mut images: Vec<Image> = cap.borrow().images.clone();
                    images.push(Image { label: "after_op".into(), files: simstore::read_dir_image(&live), op_index: idx, acked, in_progress: false });
                    last_images.clear();
                    for (n, img) in images.iter().enumerate() {
                        let j = verify_image(&mut st, &mut ctx, img, None, "checkpoint", n % 3 == 1).await;
                        last_images.push((img.clone(), j));
                    }
                }
                "reopen" => {
                    ev!("op#{idx} clean reopen");
                    drop(mgr.take());
                    ctx.probe("clean_reopen");
                    match open(&live, &flush).await {
                        Ok(m2) => {
                            let map = to_map(m2.get_all().unwrap_or_default());
                            if map != cur {
                                ctx.violate("C06.clean_restart.state_differs", "", format!("op #{idx}: after a clean restart get_all() = {} instead of {}", short(&map), short(&cur)));
                                // continue on what was recovered only if it is a prefix; otherwise stop
                                mgr = Some(m2);
                                break 'ops;
                            }
                            mgr = Some(m2);
                        }
                        Err(e) => {
                            ctx.violate("C06.recover.reopen_failed", "clean_restart", format!("clean reopen failed: {e}"));
                            break 'ops;
                        }
                    }
                }
                "clock" => {
                    let s = op["secs"].as_i64().unwrap_or(0);
                    let now = verif_hooks::unix_secs();
                    verif_hooks::set_wall_secs((now as i64 + s).max(0) as u64);
                    ctx.sim_ms += s.unsigned_abs() * 1000;
                    if s < 0 { ctx.fault("clock_backwards"); }
                    if s == 0 { ctx.probe("same_second"); }
                    ev!("op#{idx} clock {s:+}");
                }
                "crash" => {
                    if last_images.is_empty() {
                        continue;
                    }
                    let pick = op["pick"].as_u64().unwrap_or(0) as usize % last_images.len();
                    let (img, j) = last_images[pick].clone();
                    ev!("op#{idx} crash: continue from image {} (op#{})", img.label, img.op_index);
                    let Some(j) = j else { break 'ops };
                    // ambiguous (equal) states: continue from the earliest one that matches
                    let j = if j < st.states.len() { (0..=j).find(|i| st.states[*i] == st.states[j]).unwrap_or(j) } else { j };
                    drop(mgr.take());
                    simstore::materialise(&img.files, &live);
                    ctx.fault("crash_and_continue");
                    match open(&live, &flush).await {
                        Ok(m2) => {
                            // the recovered prefix defines where the history continues
                            if j + 1 == st.states.len() + 1 {
                                // the in-progress op survived: it is the new last state
                                if let Some((_, _)) = last_images.get(pick) {
                                    let map = to_map(m2.get_all().unwrap_or_default());
                                    st.states.push(map);
                                    let t = st.tx_of_state.last().copied().unwrap_or(0);
                                    st.tx_of_state.push(t);
                                }
                            } else {
                                st.states.truncate(j + 1);
                                st.tx_of_state.truncate(j + 1);
                            }
                            let map = to_map(m2.get_all().unwrap_or_default());
                            if &map != st.states.last().unwrap() {
                                // different from what the same image gave when checked: recovery is not a function of the files
                                ctx.violate("C06.recover.not_repeatable", "", format!("op #{idx}: reopening image {} twice gave different states", img.label));
                                break 'ops;
                            }
                            let t = max_tx(&simstore::read_dir_image(&live));
                            if let Some(l) = st.tx_of_state.last_mut() { *l = (*l).max(t); }
                            mgr = Some(m2);
                            last_images.clear();
                        }
                        Err(e) => {
                            ctx.violate("C06.recover.reopen_failed", "crash_continue", format!("reopen after crash failed: {e}"));
                            break 'ops;
                        }
                    }
                }
                _ => {}
            }
        }
        drop(mgr);
    });
    drop(rt);
    let reached = cap.borrow().reached.clone();
    for (k, v) in reached {
        ctx.probe_n(&format!("point:{k}"), v);
    }
    for k in ["images_checked", "torn_images", "rotation_inside_operation", "checkpoint", "clean_reopen", "recovery_death_images"] {
        ctx.probes.entry(k.to_string()).or_insert(0);
    }
    simstore::uninstall();
    verif_hooks::set_knob("wal_max_entries", None);
    verif_hooks::clear_wall();
    let _ = st.live;
    drop(scratch);
    ctx.finish()
}
