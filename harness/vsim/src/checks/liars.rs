//! Byzantine stub peers for the network simulation: they speak the wire format
//! and answer DHT requests according to a script.

use crate::simkit::Rng;
use crate::simnet::{SimNetwork, SimNode};
use saorsa_core::dht_network_manager::{DHTNode, DhtMessageType, DhtNetworkMessage, DhtNetworkOperation, DhtNetworkResult};
use saorsa_core::verif_hooks;
use serde_json::Value;
use std::net::SocketAddr;
use std::sync::Arc;
use std::sync::atomic::{AtomicU64, Ordering};

pub struct Liar {
    pub idx: usize,
    pub tid: String,
    pub addr: SocketAddr,
    replies: Arc<AtomicU64>,
}
impl Liar {
    pub fn replies(&self) -> u64 {
        self.replies.load(Ordering::Relaxed)
    }
}

fn now_secs() -> u64 {
    std::time::SystemTime::now().duration_since(std::time::UNIX_EPOCH).map(|d| d.as_secs()).unwrap_or(0)
}

fn fake_node(r: &mut Rng, claim_pos: Option<[u8; 32]>) -> DHTNode {
    DHTNode { peer_id: hex::encode(r.arr32()), address: format!("10.250.{}.{}:9{:03}", r.below(250), 1 + r.below(250), r.below(1000)), distance: claim_pos.map(|p| p.to_vec()), reliability: 1.0, cached_dht_key: None }
}

pub async fn spawn_liars(sc: &Value, net: &Arc<SimNetwork>, nodes: &[SimNode]) -> Vec<Liar> {
    let mut out = Vec::new();
    let flood_counter = Arc::new(AtomicU64::new(0));
    let hidden = sc["hidden"].as_u64().unwrap_or(0) as usize;
    for (li, spec) in sc["liars"].as_array().cloned().unwrap_or_default().iter().enumerate() {
        if nodes.is_empty() { break; }
        let tid_bytes = Rng::new(spec["tid_salt"].as_u64().unwrap_or(li as u64) ^ 0x11a2).arr32();
        let tid = hex::encode(tid_bytes);
        let addr: SocketAddr = SocketAddr::from(([10 + (li / 4) as u8 * 7, 200, li as u8, 1], 7000 + li as u16));
        let (idx, mut inbox) = net.add_stub(&tid, addr);
        let script = spec["script"].as_str().unwrap_or("unknown_ids").to_string();
        let knows = (spec["knows"].as_u64().unwrap_or(0) as usize) % nodes.len();
        // a real node connects to the liar, so the liar sits in its table like any peer
        let _ = nodes[knows].manager.connect_to_peer(&addr.to_string()).await;
        let replies = Arc::new(AtomicU64::new(0));
        let r2 = replies.clone();
        let flood2 = flood_counter.clone();
        let net2 = net.clone();
        let tid2 = tid.clone();
        let real: Vec<(String, String, String)> = nodes.iter().map(|n| (n.tid.clone(), n.app_id.clone(), n.addr.to_string())).collect();
        let mut rng = Rng::new(spec["tid_salt"].as_u64().unwrap_or(0) ^ 0xbad);
        tokio::spawn(async move {
            while let Some((from, frame)) = inbox.recv().await {
                let Some((protocol, data, _f, _ts)) = verif_hooks::decode_wire(&frame) else { continue };
                if protocol != "/dht/1.0.0" { continue; }
                let Ok(msg) = postcard::from_bytes::<DhtNetworkMessage>(&data) else { continue };
                if !matches!(msg.message_type, DhtMessageType::Request) { continue; }
                let key = match &msg.payload {
                    DhtNetworkOperation::FindNode { key } | DhtNetworkOperation::FindValue { key } | DhtNetworkOperation::Get { key } | DhtNetworkOperation::Put { key, .. } => *key,
                    _ => [0u8; 32],
                };
                let requester_tid = net2.tid(from);
                let mut message_id = msg.message_id.clone();
                let result = match script.as_str() {
                    "silent" => continue,
                    // flood: 20 made-up contacts on the far side of the key space; from the 11th flood reply of
                    // the run on, the reply also names one real, responsive node (the scenario's "hidden" node)
                    "flood" => {
                        let nth = flood2.fetch_add(1, Ordering::Relaxed);
                        let mut ns: Vec<DHTNode> = Vec::new();
                        while ns.len() < 19 {
                            let f = fake_node(&mut rng, None);
                            let p = saorsa_core::dht::derive_dht_key_from_peer_id(&f.peer_id);
                            if (p[0] ^ key[0]) & 0x80 != 0 { ns.push(f); }
                        }
                        if nth >= 10 {
                            let (t, _a, ad) = real[hidden.min(real.len() - 1)].clone();
                            ns.insert(9, DHTNode { peer_id: t, address: ad, distance: None, reliability: 1.0, cached_dht_key: None });
                        } else {
                            ns.push(fake_node(&mut rng, None));
                        }
                        DhtNetworkResult::NodesFound { key, nodes: ns }
                    }
                    "unknown_ids" => DhtNetworkResult::NodesFound { key, nodes: (0..8).map(|_| fake_node(&mut rng, None)).collect() },
                    "target_equal" => DhtNetworkResult::NodesFound { key, nodes: (0..8).map(|_| fake_node(&mut rng, Some(key))).collect() },
                    "overlong" => DhtNetworkResult::NodesFound { key, nodes: (0..200).map(|_| fake_node(&mut rng, None)).collect() },
                    "dup_ids" => {
                        let (t, _a, ad) = real[rng.usize_below(real.len())].clone();
                        DhtNetworkResult::NodesFound { key, nodes: (0..8).map(|_| DHTNode { peer_id: t.clone(), address: ad.clone(), distance: None, reliability: 1.0, cached_dht_key: None }).collect() }
                    }
                    "names_requester" => {
                        let me = real.iter().find(|(t, _, _)| *t == requester_tid).cloned().unwrap_or_else(|| real[0].clone());
                        DhtNetworkResult::NodesFound { key, nodes: vec![
                            DHTNode { peer_id: me.0.clone(), address: me.2.clone(), distance: Some(key.to_vec()), reliability: 1.0, cached_dht_key: None },
                            DHTNode { peer_id: me.1.clone(), address: me.2.clone(), distance: Some(key.to_vec()), reliability: 1.0, cached_dht_key: None },
                            DHTNode { peer_id: hex::encode(saorsa_core::dht::derive_dht_key_from_peer_id(&me.0)), address: me.2.clone(), distance: Some(key.to_vec()), reliability: 1.0, cached_dht_key: None },
                        ] }
                    }
                    "names_self" => DhtNetworkResult::NodesFound { key, nodes: (0..8).map(|_| DHTNode { peer_id: tid2.clone(), address: addr.to_string(), distance: Some(key.to_vec()), reliability: 1.0, cached_dht_key: None }).collect() },
                    "wrong_variant" => DhtNetworkResult::PutSuccess { key, replicated_to: 1, peer_outcomes: vec![] },
                    "foreign_id" => { message_id = format!("{:08x}-0000-4000-8000-000000000000", rng.below(1 << 32)); DhtNetworkResult::NodesFound { key, nodes: vec![] } }
                    _ => DhtNetworkResult::NodesFound { key, nodes: vec![] },
                };
                let resp = DhtNetworkMessage {
                    message_id,
                    source: tid2.clone(),
                    target: Some(msg.source.clone()),
                    message_type: DhtMessageType::Response,
                    payload: msg.payload.clone(),
                    result: Some(result),
                    timestamp: now_secs(),
                    ttl: 9,
                    hop_count: 1,
                };
                let Ok(body) = postcard::to_stdvec(&resp) else { continue };
                let frame = verif_hooks::encode_wire("/dht/1.0.0", body, &tid2, now_secs());
                r2.fetch_add(1, Ordering::Relaxed);
                net2.inject(idx, from, frame, 0);
            }
        });
        out.push(Liar { idx, tid, addr, replies });
    }
    out
}
