//! C20 — concurrent DHT operations and shutdown always complete; nothing runs after.
//!
//! SIM-NET: 2..12 real nodes, several client operations in flight per node with
//! seeded start offsets, peers turned silent at drawn instants (also mid-operation),
//! `stop()` called on up to two nodes at drawn instants relative to in-flight work.
//! Liveness is judged against an explicit bound in simulated time; a total stall
//! (every task blocked, no timer) is caught by an outer simulated deadline.

use crate::ev;
use crate::simkit::shrink::drop_chunks;
use crate::simkit::{CheckDef, Ctx, Rng, RunReport, Tier, sim_runtime};
use crate::simnet::{self, Fate};
use saorsa_core::dht_network_manager::{DhtMessageType, DhtNetworkOperation};
use serde_json::{Value, json};
use std::collections::BTreeMap;
use std::sync::{Arc, Mutex};
use std::time::Duration;

use super::c01::{TOPOLOGIES, build_world, gen_topology};

pub static DEF: CheckDef = CheckDef {
    id: "C20",
    level: "exploration",
    technique: "deterministic multi-node network simulation with silence injection and seeded stop points: concurrent lookups / puts / gets / direct RPCs on every node under seeded latencies, peers silenced mid-operation, stop() at drawn instants; bounded-liveness oracle in simulated time (every operation and every stop() returns within a bound proportional to the request timeout; outer deadline detects a total stall), post-stop oracle over the recorded frame trace (no request leaves a stopped node), task handles joined",
    runs: (2000, 60000),
    generate,
    execute,
    shrink,
    rule: "each run = 2..12 real nodes in one of 7 topologies, request timeout from {300 ms, 1 s, 3 s}, yield rate at lock acquisitions from {0, 0, 1/16, 1/4, 1/2, 200/256}, 3..30 client operations (network lookup, find_node, put, get, ping RPC, connect to a further peer) spread over the nodes with start offsets in 0..2 x timeout so that several are in flight per node while the node also serves inbound requests; 0..4 peers turned silent at offsets 0..3 x timeout (some permanently, some healing); 0..2 nodes stopped at offsets 0..3 x timeout; bound per operation = 30 x (dial timeout + request timeout) + 5 s, bound for stop() = (peers + 3) x request timeout + 5 s; non-trivial = at least two operations overlapped on one node and a silence or stop fell inside an operation; distinct = distinct hash of the completion log",
    real_components: &["DhtNetworkManager (client operations, inbound handler with semaphore, stop/leave, maintenance and event tasks)", "DhtCoreEngine (locks shared by client and handler paths)", "TransportHandle up to the seam"],
    stubbed_components: &["ant-quic: in-memory network with seeded latency, silence and healing"],
    assumptions: &["operations a caller starts on a node after its stop() returned are the caller's doing and are not generated", "interleavings are those of a current-thread runtime permuted by seeded latencies, start offsets, seeded yields at the manager's lock acquisitions (rate 0..200/256 per run) and tokio's seeded scheduler randomness"],
};

fn generate(seed: u64, tier: Tier) -> Value {
    let mut r = Rng::new(seed);
    let n = r.range(2, 12);
    let topo = *r.pick(TOPOLOGIES);
    let edges: Vec<Value> = gen_topology(&mut r, n, topo).into_iter().map(|(a, b)| json!([a, b])).collect();
    let timeout_ms = *r.pick(&[300u64, 1000, 3000]);
    let nodes: Vec<Value> = (0..n).map(|i| json!({"tid_salt": r.below(1 << 40), "ip": [10, r.below(3), r.below(250), 1 + i % 250], "port": 9000 + r.below(50)})).collect();
    let nops = r.range(3, if tier == Tier::Quick { 20 } else { 30 });
    let mut ops = Vec::new();
    for i in 0..nops {
        ops.push(json!({"o": i, "node": r.below(n), "kind": *r.pick(&["lookup", "lookup", "find_node", "put", "put", "get", "get", "ping", "connect", "connect"]), "start_ms": r.below(2 * timeout_ms),
                        "key_salt": r.below(6), "to": r.below(n), "count": *r.pick(&[1u64, 8, 20]), "len": *r.pick(&[0u64, 10, 512]),
                        // one caller in six gives up on its operation part-way (drops the future)
                        "abandon_ms": if r.chance(1, 6) { r.below(timeout_ms + timeout_ms / 2) } else { 0 }}));
    }
    // connections that do not exist yet, each with lookups on both ends around the same instant:
    // the peer-connected handler then runs while lookups sit between their two lock sections
    let have: std::collections::BTreeSet<(u64, u64)> = edges.iter().map(|e| { let (a, b) = (e[0].as_u64().unwrap_or(0), e[1].as_u64().unwrap_or(0)); (a.min(b), a.max(b)) }).collect();
    for _ in 0..r.below(4) {
        let (a, b) = (r.below(n), r.below(n));
        if a == b || have.contains(&(a.min(b), a.max(b))) { continue; }
        let at = r.below(2 * timeout_ms);
        let o = ops.len() as u64;
        ops.push(json!({"o": o, "node": a, "kind": "connect", "start_ms": at, "key_salt": 0, "to": b, "count": 8, "len": 0}));
        for (j, end) in [a, b, a, b].iter().enumerate() {
            let o = ops.len() as u64;
            ops.push(json!({"o": o, "node": end, "kind": if j < 2 { "local_burst" } else { *r.pick(&["lookup", "find_node", "get"]) }, "start_ms": at + (j as u64 / 2) * r.below(4), "key_salt": r.below(6), "to": r.below(n), "count": 8, "len": 0}));
        }
    }
    let mut silence = Vec::new();
    for _ in 0..r.below(5) {
        let from = if r.chance(1, 2) { ops[r.usize_below(ops.len())]["start_ms"].as_u64().unwrap_or(0) + r.below(timeout_ms / 2 + 20) } else { r.below(3 * timeout_ms) };
        silence.push(json!({"node": r.below(n), "from_ms": from, "until_ms": if r.chance(1, 2) { json!(from + r.range(1, 4 * timeout_ms)) } else { Value::Null }}));
    }
    // the connection layer reports a connection lost while work is in flight (the peer stays in the
    // registry as disconnected; later sends to it take the dead-connection path)
    let mut conn_lost = Vec::new();
    for _ in 0..(if r.chance(1, 2) { r.below(4) } else { 0 }) {
        let q = ops[r.usize_below(ops.len())].clone();
        let node = q["node"].as_u64().unwrap_or(0);
        conn_lost.push(json!({"node": node, "peer": r.below(n), "at_ms": q["start_ms"].as_u64().unwrap_or(0) + r.below(timeout_ms / 2 + 20)}));
        // and some more work on that node right afterwards
        for _ in 0..r.below(3) {
            let o = ops.len() as u64;
            ops.push(json!({"o": o, "node": node, "kind": *r.pick(&["ping", "lookup", "put", "get", "find_node"]), "start_ms": q["start_ms"].as_u64().unwrap_or(0) + timeout_ms / 2 + 30 + r.below(timeout_ms),
                            "key_salt": r.below(6), "to": conn_lost.last().map(|c| c["peer"].as_u64().unwrap_or(0)).unwrap_or(0), "count": 8, "len": 10, "abandon_ms": 0}));
        }
    }
    let mut stops = Vec::new();
    for _ in 0..r.below(3) {
        // three in four stops are aimed inside an operation of the stopped node
        if r.chance(3, 4) {
            let q = ops[r.usize_below(ops.len())].clone();
            let at = q["start_ms"].as_u64().unwrap_or(0) + r.below(timeout_ms + 50);
            stops.push(json!({"node": q["node"], "at_ms": at}));
            // and a burst of further work on that node around the stop instant
            for _ in 0..r.below(4) {
                let o = ops.len() as u64;
                let back = r.below(timeout_ms / 2 + 10);
                ops.push(json!({"o": o, "node": q["node"], "kind": *r.pick(&["lookup", "find_node", "put", "get", "ping"]), "start_ms": at.saturating_sub(back),
                                "key_salt": r.below(6), "to": r.below(n), "count": *r.pick(&[8u64, 20]), "len": 10,
                                // one in three of these callers gives up just before the stop instant
                                "abandon_ms": if r.chance(1, 3) { 1 + r.below(back.max(1)) } else { 0 }}));
            }
        } else {
            stops.push(json!({"node": r.below(n), "at_ms": r.below(3 * timeout_ms)}));
        }
    }
    json!({"property": "C20", "seed": seed, "net_seed": r.below(1 << 40), "n": n, "topology": topo, "edges": edges, "ident": if r.chance(2, 3) { "a" } else { "b" },
           "k": *r.pick(&[3u64, 8, 8, 20]), "timeout_ms": timeout_ms, "nodes": nodes, "ops": ops,
           "faults": {"silence": [], "slow": [], "drops": [], "dial": []}, "silence_at": silence, "conn_lost": conn_lost, "stops": stops, "liars": [], "yield_rate": *r.pick(&[0u64, 0, 16, 64, 128, 200]),
           "latency_ms": *r.pick(&[1u64, 5, 20]), "jitter_ms": *r.pick(&[0u64, 3, 30])})
}

fn shrink(sc: &Value) -> Vec<Value> {
    let mut v = drop_chunks(sc, "ops");
    v.extend(drop_chunks(sc, "silence_at"));
    v.extend(drop_chunks(sc, "stops"));
    v.extend(drop_chunks(sc, "conn_lost"));
    v.extend(drop_chunks(sc, "edges"));
    v
}

fn key_of(salt: u64) -> [u8; 32] {
    Rng::new(0xc20 ^ salt).arr32()
}

fn execute(sc: &Value) -> RunReport {
    let seed = sc["seed"].as_u64().unwrap_or(0);
    let rt = sim_runtime(seed);
    let mut ctx = Ctx::new();
    // seeded yields at every lock acquisition of the DHT manager (per 256), so tasks interleave between two lock sections
    let yield_rate = sc["yield_rate"].as_u64().unwrap_or(0) as u32;
    rt.block_on(async {
        let (net, nodes) = match build_world(sc, false).await {
            Ok(x) => x,
            Err(e) => { ctx.harness_error = Some(format!("build_world: {e}")); return; }
        };
        let n = nodes.len();
        saorsa_core::verif_hooks::set_yield_points(yield_rate, seed ^ 0x79656c64);
        if yield_rate > 0 { ctx.fault("seeded_yield_points"); }
        let t_ms = sc["timeout_ms"].as_u64().unwrap_or(1000);
        let dial_ms = t_ms.min(5000);
        let b_op = 30 * (dial_ms + t_ms) + 5000;
        let t0 = net.now_ms();
        // silence at drawn instants
        for s in sc["silence_at"].as_array().cloned().unwrap_or_default() {
            let node = (s["node"].as_u64().unwrap_or(0) as usize) % n;
            let from = t0 + s["from_ms"].as_u64().unwrap_or(0);
            let until = s["until_ms"].as_u64().map(|u| t0 + u).unwrap_or(u64::MAX / 2);
            net.set_silence(nodes[node].idx, from, until);
            ctx.fault(if until < u64::MAX / 4 { "silence_then_heal" } else { "silence" });
        }
        let tids: Vec<String> = nodes.iter().map(|x| x.tid.clone()).collect();
        // (node, op id) -> (start, end, outcome)
        let log: Arc<Mutex<BTreeMap<u64, (usize, String, u64, Option<(u64, String)>)>>> = Arc::new(Mutex::new(BTreeMap::new()));
        let stop_called: Arc<Mutex<Vec<bool>>> = Arc::new(Mutex::new(vec![false; n]));
        let mut handles = Vec::new();
        for q in sc["ops"].as_array().cloned().unwrap_or_default() {
            let o = q["o"].as_u64().unwrap_or(0);
            let node = (q["node"].as_u64().unwrap_or(0) as usize) % n;
            let kind = q["kind"].as_str().unwrap_or("lookup").to_string();
            let start = q["start_ms"].as_u64().unwrap_or(0);
            let key = key_of(q["key_salt"].as_u64().unwrap_or(0));
            let count = q["count"].as_u64().unwrap_or(8) as usize;
            let value = vec![0x5a; q["len"].as_u64().unwrap_or(0) as usize];
            let abandon_ms = q["abandon_ms"].as_u64().unwrap_or(0);
            let mut to = (q["to"].as_u64().unwrap_or(0) as usize) % n;
            if to == node { to = (to + 1) % n; }
            let peer = tids[to].clone();
            let peer_addr = nodes[to].addr.to_string();
            let mgr = nodes[node].manager.clone();
            let log = log.clone();
            let net2 = net.clone();
            let stop_called2 = stop_called.clone();
            handles.push(tokio::spawn(async move {
                tokio::time::sleep(Duration::from_millis(start)).await;
                // an operation started on a node whose stop() was already called is the caller's doing: not generated
                if stop_called2.lock().unwrap()[node] { return; }
                let s = net2.now_ms();
                log.lock().unwrap().insert(o, (node, kind.clone(), s, None));
                let fut = async {
                    match kind.as_str() {
                        "lookup" => mgr.find_closest_nodes(&key, count).await.map(|v| format!("{} nodes", v.len())).map_err(|e| e.to_string()),
                        "find_node" => mgr.find_node(&key).await.map(|r| simnet::result_name(&r).to_string()).map_err(|e| e.to_string()),
                        "put" => mgr.put(key, value).await.map(|r| simnet::result_name(&r).to_string()).map_err(|e| e.to_string()),
                        "get" => mgr.get(&key).await.map(|r| simnet::result_name(&r).to_string()).map_err(|e| e.to_string()),
                        // a first-time connection while other work is in flight: the peer-connected handler runs concurrently
                        // the local address-book lookup every millisecond for 80 ms (it is documented as safe to call from handlers)
                        "local_burst" => { for _ in 0..80 { let _ = mgr.find_closest_nodes_local(&key, count).await; tokio::time::sleep(Duration::from_millis(1)).await; } Ok("burst done".to_string()) }
                        "connect" => mgr.connect_to_peer(&peer_addr).await.map(|_| "connected".to_string()).map_err(|e| e.to_string()),
                        _ => mgr.send_request(&peer, DhtNetworkOperation::Ping).await.map(|r| simnet::result_name(&r).to_string()).map_err(|e| e.to_string()),
                    }
                };
                let out = if abandon_ms > 0 {
                    // the caller drops the operation's future at a drawn instant (its own shorter timeout)
                    match tokio::time::timeout(Duration::from_millis(abandon_ms), fut).await {
                        Ok(Ok(s)) => format!("ok:{s}"),
                        Ok(Err(e)) => format!("err:{}", e.chars().take(60).collect::<String>()),
                        Err(_) => "abandoned".to_string(),
                    }
                } else {
                    match tokio::time::timeout(Duration::from_millis(b_op), fut).await {
                        Ok(Ok(s)) => format!("ok:{s}"),
                        Ok(Err(e)) => format!("err:{}", e.chars().take(60).collect::<String>()),
                        Err(_) => "EXCEEDED".to_string(),
                    }
                };
                let e = net2.now_ms();
                if let Some(x) = log.lock().unwrap().get_mut(&o) { x.3 = Some((e, out)); }
            }));
        }
        // connection-lost notifications at drawn instants
        for c in sc["conn_lost"].as_array().cloned().unwrap_or_default() {
            let node = (c["node"].as_u64().unwrap_or(0) as usize) % n;
            let mut peer = (c["peer"].as_u64().unwrap_or(0) as usize) % n;
            if peer == node { peer = (peer + 1) % n; }
            let at = c["at_ms"].as_u64().unwrap_or(0);
            let tr = nodes[node].transport.clone();
            let ptid = tids[peer].clone();
            tokio::spawn(async move {
                tokio::time::sleep(Duration::from_millis(at)).await;
                if tr.is_peer_connected(&ptid).await { tr.verif_connection_lost(&ptid).await; }
            });
            ctx.fault("connection_lost_notification");
        }
        // stops
        let stop_log: Arc<Mutex<Vec<(usize, u64, Option<u64>, usize, String)>>> = Arc::new(Mutex::new(Vec::new()));
        let mut stop_handles = Vec::new();
        let mut stopped_nodes = Vec::new();
        for s in sc["stops"].as_array().cloned().unwrap_or_default() {
            let node = (s["node"].as_u64().unwrap_or(0) as usize) % n;
            if stopped_nodes.contains(&node) { continue; }
            stopped_nodes.push(node);
            let at = s["at_ms"].as_u64().unwrap_or(0);
            let mgr = nodes[node].manager.clone();
            let sl = stop_log.clone();
            let net2 = net.clone();
            let sc2 = stop_called.clone();
            stop_handles.push(tokio::spawn(async move {
                tokio::time::sleep(Duration::from_millis(at)).await;
                sc2.lock().unwrap()[node] = true;
                let peers = mgr.verif_dht_peers().await.len();
                let b_stop = (peers as u64 + 3) * t_ms + 5000;
                let s0 = net2.now_ms();
                let r = tokio::time::timeout(Duration::from_millis(b_stop), mgr.stop()).await;
                let e = net2.now_ms();
                let joined = mgr.verif_background_tasks_joined().await;
                let out = match r { Ok(Ok(())) => format!("ok joined={joined}"), Ok(Err(e)) => format!("err:{e} joined={joined}"), Err(_) => "EXCEEDED".into() };
                sl.lock().unwrap().push((node, s0, if out == "EXCEEDED" { None } else { Some(e) }, peers, out));
            }));
            ctx.fault("stop");
        }
        // outer deadline in simulated time: if everything is blocked on locks, this timer is the only one left
        let all = async { for h in handles { let _ = h.await; } for h in stop_handles { let _ = h.await; } };
        let outer = Duration::from_millis(3 * t_ms + 2 * b_op + 60_000);
        let stalled = tokio::time::timeout(outer, all).await.is_err();
        if stalled { ctx.violate("C20.liveness.total_stall", "", "operations did not finish before the outer simulated deadline".to_string()); }
        // let late traffic (if any) appear: two more request timeouts
        tokio::time::sleep(Duration::from_millis(2 * t_ms + 500)).await;

        // ---- oracle
        let log = log.lock().unwrap().clone();
        let stops = stop_log.lock().unwrap().clone();
        let mut overlapped = false;
        let mut fault_inside = false;
        for (o, (node, kind, s, end)) in &log {
            ctx.ops += 1;
            match end {
                None => ctx.violate("C20.liveness.operation_never_returned", kind.clone(), format!("op {o} ({kind} on node {node}) started at {} ms and never returned", s - t0)),
                Some((e, out)) => {
                    ev!("op {o} {kind} node={node} start={} dur={} -> {out}", s - t0, e - s);
                    if out == "abandoned" { ctx.probe("caller_abandoned_operation"); ctx.fault("caller_abandons_operation"); }
                    if out == "EXCEEDED" {
                        ctx.violate("C20.liveness.operation_exceeded_bound", kind.clone(), format!("op {o} ({kind} on node {node}) did not return within {b_op} ms (30 x (dial + request timeout) + 5 s)"));
                    }
                    for (o2, (n2, _, s2, e2)) in &log { if o2 != o && n2 == node { if let Some((e2, _)) = e2 { if s2 < e && s < e2 { overlapped = true; } } } }
                    for sl in sc["silence_at"].as_array().cloned().unwrap_or_default() { let f = t0 + sl["from_ms"].as_u64().unwrap_or(0); if f > *s && f < *e { fault_inside = true; } }
                    for (_, s0, _, _, _) in &stops { if s0 > s && s0 < e { fault_inside = true; } }
                }
            }
        }
        let frames = net.frames();
        for (node, s0, end, peers, out) in &stops {
            ev!("stop node={node} at={} dur={:?} peers={peers} -> {out}", s0 - t0, end.map(|e| e - s0));
            let in_flight: Vec<&str> = log.values().filter(|(nn, _, s, e)| nn == node && s < s0 && e.as_ref().map(|(e, _)| e > s0).unwrap_or(true)).map(|(_, k, _, _)| k.as_str()).collect();
            let key = if in_flight.is_empty() { "idle".to_string() } else { let mut k: Vec<&str> = in_flight.clone(); k.sort(); k.dedup(); k.join("+") };
            match end {
                None => ctx.violate("C20.stop.exceeded_bound", key.clone(), format!("stop() on node {node} with {peers} known peers did not return within ({peers}+3) x {t_ms} ms + 5 s")),
                Some(e) => {
                    if !out.contains("joined=true") { ctx.violate("C20.stop.background_tasks_not_joined", "", format!("node {node}: {out}")); }
                    let idx = nodes[*node].idx;
                    let late: Vec<String> = frames.iter().filter(|f| f.from == idx && f.t_ms > *e && !matches!(f.fate, Fate::SendError))
                        .filter_map(|f| f.dht.as_ref().filter(|m| matches!(m.message_type, DhtMessageType::Request)).map(|m| format!("{}@+{}ms", simnet::op_name(&m.payload), f.t_ms - e))).collect();
                    if !late.is_empty() {
                        ctx.violate("C20.stop.requests_sent_after_stop_returned", key, format!("node {node}: stop() returned at {} ms; afterwards the node sent {} request(s): {}", e - t0, late.len(), late.iter().take(6).cloned().collect::<Vec<_>>().join(", ")));
                    }
                    if !in_flight.is_empty() { ctx.probe("stop_with_ops_in_flight"); }
                }
            }
        }
        if overlapped { ctx.probe("ops_overlapped_on_a_node"); }
        if fault_inside { ctx.probe("fault_inside_operation"); }
        if overlapped && fault_inside { ctx.nontrivial = true; }
        ctx.sim_ms += net.now_ms();
        for (k, v) in net.fired() { for _ in 0..v { ctx.fault(&k); } }
        net.shutdown();
    });
    drop(rt);
    saorsa_core::verif_hooks::set_yield_points(0, 0);
    for k in ["ops_overlapped_on_a_node", "fault_inside_operation", "stop_with_ops_in_flight", "caller_abandoned_operation"] { ctx.probes.entry(k.to_string()).or_insert(0); }
    ctx.finish()
}
