//! C01 — iterative lookup returns the K closest responsive nodes it could learn of.
//!
//! SIM-NET: 2..16 (quick) / 2..40 (thorough) real nodes (real TransportHandle,
//! DhtNetworkManager, DhtCoreEngine) on the simulated network; topologies from
//! {mesh, ring, line, star, sparse, bridge, bootstrap}; silence, slow nodes,
//! drops, refused and black-holed dials, lying stub peers. Oracle from the RPC
//! trace of each lookup.

use crate::ev;
use crate::simkit::shrink::drop_chunks;
use crate::simkit::{CheckDef, Ctx, Rng, RunReport, Tier, sim_runtime};
use crate::simnet::{self, FaultPlan, Fate, NodeSpec, SimNetwork, SimNode};
use saorsa_core::dht::derive_dht_key_from_peer_id;
use saorsa_core::dht_network_manager::{DHTNode, DhtMessageType, DhtNetworkOperation, DhtNetworkResult};
use serde_json::{Value, json};
use std::collections::{BTreeMap, BTreeSet};
use std::net::SocketAddr;
use std::sync::Arc;
use std::time::Duration;

pub static DEF: CheckDef = CheckDef {
    id: "C01",
    level: "exploration",
    technique: "deterministic multi-node network simulation: real nodes over an in-memory transport with seeded latencies and faults (silence, slow, drop, refused/black-holed dials, lying stub peers); per-lookup oracle over the recorded RPC trace (bounds, distinctness, order, provenance, no self/duplicate queries, closure over everything the lookup learned, exactness in responsive full meshes)",
    runs: (1500, 60000),
    generate,
    execute,
    shrink,
    rule: "each run = 2..16 (quick) / 2..40 (thorough) real nodes, identity configuration (a) app id = transport id or (b) distinct app id, topology drawn from 7 shapes, K in 1..20, 1..6 serial lookups with counts 0..64 and keys random / a node position / adjacent; one run in three is fault-free; others draw silence, slow nodes, message drops, dial refusals/black holes and 0..2 lying stubs; one run in twelve is a candidate-queue flood (12..16 lying stubs each answering with 20 made-up contacts, a real node adjacent to the key named only after the tenth reply); non-trivial = a lookup that sent at least 2 requests; distinct = distinct hash of the (request, reply, result) log",
    real_components: &["TransportHandle (framing, receive loop, peer registry, connect/send paths up to the seam)", "DhtNetworkManager (iterative lookup, request/response correlation, handlers)", "DhtCoreEngine / routing table"],
    stubbed_components: &["ant-quic (connection establishment, streams): in-memory network with seeded latency", "Byzantine peers: scripted stubs speaking the wire format"],
    assumptions: &["wire timestamps read the real clock (runs last milliseconds of wall time)", "interleavings are those of a current-thread runtime permuted by seeded latencies"],
};

pub const TOPOLOGIES: &[&str] = &["mesh", "mesh", "ring", "line", "star", "sparse", "bridge", "bootstrap"];

pub fn gen_topology(r: &mut Rng, n: u64, topo: &str) -> Vec<(u64, u64)> {
    let mut e = Vec::new();
    match topo {
        "mesh" => { for a in 0..n { for b in (a + 1)..n { e.push((a, b)); } } }
        "ring" => { for a in 0..n { if n > 1 { e.push((a, (a + 1) % n)); } } }
        "line" => { for a in 1..n { e.push((a - 1, a)); } }
        "star" | "bootstrap" => { for a in 1..n { e.push((a, 0)); } }
        "bridge" => {
            let h = n / 2;
            for a in 0..h { for b in (a + 1)..h { e.push((a, b)); } }
            for a in h..n { for b in (a + 1)..n { e.push((a, b)); } }
            if h > 0 && h < n { e.push((h - 1, h)); }
        }
        _ => {
            for a in 1..n { e.push((a, r.below(a))); }
            for _ in 0..n { let a = r.below(n); let b = r.below(n); if a != b { e.push((a, b)); } }
        }
    }
    e.retain(|(a, b)| a != b);
    e
}

/// One run in twelve: a candidate-queue flood. The origin knows 12..16 lying stubs that sit on the
/// key's side of the id space; each answers with 20 made-up far contacts, so the queue of unqueried
/// candidates reaches its cap (200) after ten replies; later replies also name a real node that is
/// adjacent to the key and that nobody else mentions.
fn generate_flood(seed: u64, r: &mut Rng) -> Value {
    let nodes: Vec<Value> = (0..3u64).map(|i| json!({"tid_salt": r.below(1 << 40), "ip": [10 + 40 * i, 1, r.below(250), 1 + i], "port": 9000 + i})).collect();
    // node 1 is the hidden node: the key is adjacent to its position
    let hidden_pos = derive_dht_key_from_peer_id(&hex::encode(node_tid(&nodes[1])));
    let nl = r.range(12, 16);
    let mut liars = Vec::new();
    while (liars.len() as u64) < nl {
        let salt = r.below(1 << 40);
        let tid = hex::encode(Rng::new(salt ^ 0x11a2).arr32());
        if (derive_dht_key_from_peer_id(&tid)[0] ^ hidden_pos[0]) & 0x80 == 0 { liars.push(json!({"script": "flood", "knows": 0, "tid_salt": salt})); }
    }
    json!({"property": "C01", "seed": seed, "net_seed": r.below(1 << 40), "n": 3, "topology": "flood", "edges": [[0, 2]], "ident": "a", "k": *r.pick(&[20u64, 50]), "timeout_ms": 1000,
           "nodes": nodes, "lookups": [{"node": 0, "key": "adjacent", "key_of": 1, "key_salt": 0, "count": 64, "via": "closest"}],
           "faults": {"silence": [], "slow": [], "drops": [], "dial": []}, "fault_free": false, "liars": liars, "hidden": 1, "latency_ms": 2, "jitter_ms": *r.pick(&[0u64, 3])})
}

fn generate(seed: u64, tier: Tier) -> Value {
    let mut r = Rng::new(seed);
    if r.chance(1, 12) { return generate_flood(seed, &mut r); }
    let n = if tier == Tier::Quick { r.range(2, 16) } else if r.chance(1, 4) { r.range(17, 40) } else { r.range(2, 16) };
    let topo = *r.pick(TOPOLOGIES);
    let edges: Vec<Value> = gen_topology(&mut r, n, topo).into_iter().map(|(a, b)| json!([a, b])).collect();
    let ident = if r.chance(2, 3) { "a" } else { "b" };
    let k = *r.pick(&[1u64, 2, 3, 8, 8, 8, 20]);
    let timeout_ms = *r.pick(&[500u64, 1000, 3000, 30_000]);
    let nodes: Vec<Value> = (0..n).map(|i| json!({"tid_salt": r.below(1 << 40), "ip": [10, (i / 200) as u64 + r.below(3), r.below(250), 1 + i % 250], "port": 9000 + r.below(50)})).collect();
    let mut lookups = Vec::new();
    for _ in 0..r.range(1, 6) {
        lookups.push(json!({"node": r.below(n), "key": *r.pick(&["random", "random", "node", "adjacent", "self"]), "key_of": r.below(n), "key_salt": r.below(1 << 40),
                            "count": *r.pick(&[0u64, 1, 3, 8, 8, 20, 64]), "via": *r.pick(&["closest", "closest", "find_node"])}));
    }
    let fault_free = r.chance(1, 3);
    let mut faults = json!({"silence": [], "slow": [], "drops": [], "dial": []});
    if !fault_free {
        for _ in 0..r.below(3) { faults["silence"].as_array_mut().unwrap().push(json!({"node": r.below(n)})); }
        for _ in 0..r.below(2) { faults["slow"].as_array_mut().unwrap().push(json!({"node": r.below(n), "mult": *r.pick(&[5u64, 50])})); }
        for _ in 0..r.below(6) { faults["drops"].as_array_mut().unwrap().push(json!({"from": r.below(n), "to": r.below(n), "nth": r.range(1, 6), "kind": *r.pick(&["drop", "drop", "delay", "dup"])})); }
        for _ in 0..r.below(3) { faults["dial"].as_array_mut().unwrap().push(json!({"from": r.below(n), "to": r.below(n), "kind": *r.pick(&["refuse", "blackhole"])})); }
    }
    let liars = if fault_free || r.chance(1, 2) { 0 } else { r.range(1, 2) };
    let liar_specs: Vec<Value> = (0..liars).map(|_| json!({"script": *r.pick(&["unknown_ids", "dup_ids", "names_requester", "names_self", "target_equal", "overlong", "wrong_variant", "foreign_id", "silent"]), "knows": r.below(n), "tid_salt": r.below(1 << 40)})).collect();
    json!({"property": "C01", "seed": seed, "net_seed": r.below(1 << 40), "n": n, "topology": topo, "edges": edges, "ident": ident, "k": k, "timeout_ms": timeout_ms,
           "nodes": nodes, "lookups": lookups, "faults": faults, "fault_free": fault_free, "liars": liar_specs, "latency_ms": *r.pick(&[1u64, 5, 20]), "jitter_ms": *r.pick(&[0u64, 3, 30])})
}

fn shrink(sc: &Value) -> Vec<Value> {
    let mut v = drop_chunks(sc, "lookups");
    for k in ["silence", "slow", "drops", "dial"] {
        if let Some(arr) = sc["faults"][k].as_array() {
            for i in 0..arr.len() {
                let mut c = sc.clone();
                c["faults"][k].as_array_mut().unwrap().remove(i);
                v.push(c);
            }
        }
    }
    v.extend(drop_chunks(sc, "liars"));
    v.extend(drop_chunks(sc, "edges"));
    v
}

pub fn node_addr(nd: &Value) -> SocketAddr {
    if let Some(a) = nd["addr"].as_str().and_then(|s| s.parse::<SocketAddr>().ok()) { return a; }
    let ip = &nd["ip"];
    SocketAddr::from(([ip[0].as_u64().unwrap_or(10) as u8, ip[1].as_u64().unwrap_or(0) as u8, ip[2].as_u64().unwrap_or(0) as u8, ip[3].as_u64().unwrap_or(1) as u8], nd["port"].as_u64().unwrap_or(9000) as u16))
}

pub fn node_tid(nd: &Value) -> [u8; 32] {
    Rng::new(nd["tid_salt"].as_u64().unwrap_or(0) ^ 0x71d).arr32()
}

pub fn xor(a: &[u8; 32], b: &[u8; 32]) -> [u8; 32] {
    let mut o = [0u8; 32];
    for i in 0..32 { o[i] = a[i] ^ b[i]; }
    o
}

/// Everything the harness knows about who is who.
pub struct Directory {
    /// identifier string -> node index, for every identifier a node is known under
    pub ids: BTreeMap<String, usize>,
    /// DHT position other nodes use for node i (derived from its transport id)
    pub pos_tid: Vec<[u8; 32]>,
    /// DHT position node i uses for itself (derived from its app id)
    pub pos_self: Vec<[u8; 32]>,
}

pub fn directory(tids: &[String], apps: &[String]) -> Directory {
    let mut ids = BTreeMap::new();
    let mut pos_tid = Vec::new();
    let mut pos_self = Vec::new();
    for (i, t) in tids.iter().enumerate() {
        let p = derive_dht_key_from_peer_id(t);
        ids.insert(t.clone(), i);
        ids.insert(apps[i].clone(), i);
        ids.insert(hex::encode(p), i);
        pos_tid.push(p);
        pos_self.push(derive_dht_key_from_peer_id(&apps[i]));
    }
    Directory { ids, pos_tid, pos_self }
}

pub fn plan_faults(sc: &Value) -> FaultPlan {
    let mut fp = FaultPlan::default();
    for s in sc["faults"]["silence"].as_array().cloned().unwrap_or_default() {
        fp.silence.insert(s["node"].as_u64().unwrap_or(0) as usize, (s["from_ms"].as_u64().unwrap_or(u64::MAX / 4), s["until_ms"].as_u64().unwrap_or(u64::MAX / 2)));
    }
    for s in sc["faults"]["slow"].as_array().cloned().unwrap_or_default() {
        fp.slow.insert(s["node"].as_u64().unwrap_or(0) as usize, s["mult"].as_u64().unwrap_or(5));
    }
    for d in sc["faults"]["drops"].as_array().cloned().unwrap_or_default() {
        fp.on_message.insert((d["from"].as_u64().unwrap_or(0) as usize, d["to"].as_u64().unwrap_or(0) as usize, d["nth"].as_u64().unwrap_or(1)), d["kind"].as_str().unwrap_or("drop").to_string());
    }
    for d in sc["faults"]["dial"].as_array().cloned().unwrap_or_default() {
        fp.dial.insert((d["from"].as_u64().unwrap_or(0) as usize, d["to"].as_u64().unwrap_or(0) as usize), d["kind"].as_str().unwrap_or("refuse").to_string());
    }
    fp
}

/// Build the network of a scenario: nodes, edges. Silence begins only after set-up.
pub async fn build_world(sc: &Value, with_trust: bool) -> Result<(Arc<SimNetwork>, Vec<SimNode>), String> {
    let mut fp = plan_faults(sc);
    let silence = std::mem::take(&mut fp.silence);
    let dial = std::mem::take(&mut fp.dial);
    let on_msg = std::mem::take(&mut fp.on_message);
    let net = SimNetwork::new(sc["net_seed"].as_u64().unwrap_or(1), sc["latency_ms"].as_u64().unwrap_or(1), sc["jitter_ms"].as_u64().unwrap_or(0), fp);
    let ident_b = sc["ident"].as_str() == Some("b");
    let k = sc["k"].as_u64().unwrap_or(8) as usize;
    let timeout = Duration::from_millis(sc["timeout_ms"].as_u64().unwrap_or(3000));
    let mut nodes = Vec::new();
    let mut used = BTreeSet::new();
    for (i, nd) in sc["nodes"].as_array().cloned().unwrap_or_default().iter().enumerate() {
        let mut addr = node_addr(nd);
        while !used.insert(addr) { addr.set_port(addr.port().wrapping_add(1).max(1)); }
        let spec = NodeSpec { tid: node_tid(nd), app_id: if ident_b { Some(format!("peer_{:08x}", nd["tid_salt"].as_u64().unwrap_or(i as u64) as u32)) } else { None }, addr, k, request_timeout: timeout, connection_timeout: timeout.min(Duration::from_secs(5)), with_trust };
        nodes.push(simnet::build_node(&net, spec).await?);
    }
    for e in sc["edges"].as_array().cloned().unwrap_or_default() {
        let (a, b) = (e[0].as_u64().unwrap_or(0) as usize, e[1].as_u64().unwrap_or(0) as usize);
        if a >= nodes.len() || b >= nodes.len() || a == b { continue; }
        let _ = nodes[a].manager.connect_to_peer(&nodes[b].addr.to_string()).await;
    }
    // let accept-side registrations and connected-peer handlers settle
    tokio::time::sleep(Duration::from_millis(500)).await;
    // faults that must not disturb set-up start now
    {
        let now = net.now_ms();
        for (node, (from, until)) in silence { net.set_silence(node, if from >= u64::MAX / 8 { now } else { now + from }, until); }
        net.arm(dial, on_msg);
    }
    Ok((net, nodes))
}

pub fn key_of(sc_lookup: &Value, dir: &Directory, node: usize) -> [u8; 32] {
    let of = (sc_lookup["key_of"].as_u64().unwrap_or(0) as usize) % dir.pos_tid.len().max(1);
    match sc_lookup["key"].as_str().unwrap_or("random") {
        "node" => dir.pos_tid[of],
        "adjacent" => { let mut k = dir.pos_tid[of]; k[31] ^= 1; k }
        "self" => dir.pos_self[node],
        _ => Rng::new(sc_lookup["key_salt"].as_u64().unwrap_or(0) ^ 0x6b65).arr32(),
    }
}

fn execute(sc: &Value) -> RunReport {
    let seed = sc["seed"].as_u64().unwrap_or(0);
    let rt = sim_runtime(seed);
    let mut ctx = Ctx::new();
    rt.block_on(async {
        let (net, nodes) = match build_world(sc, false).await {
            Ok(x) => x,
            Err(e) => { ctx.harness_error = Some(format!("build_world: {e}")); return; }
        };
        let n = nodes.len();
        // lying stubs
        let stubs = super::liars::spawn_liars(sc, &net, &nodes).await;
        let tids: Vec<String> = nodes.iter().map(|x| x.tid.clone()).collect();
        let apps: Vec<String> = nodes.iter().map(|x| x.app_id.clone()).collect();
        let dir = directory(&tids, &apps);
        let timeout_ms = sc["timeout_ms"].as_u64().unwrap_or(3000);
        let b_op = Duration::from_millis(20 * (timeout_ms.min(5000) + timeout_ms) + 3 * timeout_ms + 5000);
        let silent: BTreeSet<usize> = sc["faults"]["silence"].as_array().map(|a| a.iter().map(|s| s["node"].as_u64().unwrap_or(0) as usize).collect()).unwrap_or_default();
        let fault_free = sc["fault_free"].as_bool().unwrap_or(false) && stubs.is_empty();
        // a full mesh is judged on the connections that exist, not on the scenario's label
        let mesh = (0..n).all(|x| ((x + 1)..n).all(|y| net.connected(nodes[x].idx, nodes[y].idx)));
        let ident_a = sc["ident"].as_str() != Some("b");

        for (li, lk) in sc["lookups"].as_array().cloned().unwrap_or_default().iter().enumerate() {
            let a = (lk["node"].as_u64().unwrap_or(0) as usize) % n;
            if silent.contains(&a) { continue; }
            let key = key_of(lk, &dir, a);
            let via_find_node = lk["via"].as_str() == Some("find_node");
            let count = if via_find_node { sc["k"].as_u64().unwrap_or(8) as usize * 2 } else { lk["count"].as_u64().unwrap_or(8) as usize };
            let seq0 = net.next_seq();
            let local0 = nodes[a].manager.find_closest_nodes_local(&key, count).await;
            let fut = async {
                if via_find_node {
                    match nodes[a].manager.find_node(&key).await { Ok(DhtNetworkResult::NodesFound { nodes, .. }) => Ok(nodes), Ok(_) => Ok(vec![]), Err(e) => Err(e) }
                } else {
                    nodes[a].manager.find_closest_nodes(&key, count).await
                }
            };
            let t_start = net.now_ms();
            let res = tokio::time::timeout(b_op, fut).await;
            let t_end = net.now_ms();
            ctx.ops += 1;
            ctx.sim_ms += t_end - t_start;
            let frames = net.frames_since(seq0);
            let result: Vec<DHTNode> = match res {
                Err(_) => {
                    ctx.violate("C01.lookup.did_not_terminate", "", format!("lookup #{li} at node {a} did not return within {b_op:?} of simulated time"));
                    continue;
                }
                Ok(Err(e)) => { ev!("lookup#{li} node={a} -> error {e}"); continue; }
                Ok(Ok(v)) => v,
            };
            // ---- trace of this lookup
            let reqs: Vec<&simnet::Frame> = frames.iter().filter(|f| f.from == a && f.dht.as_ref().map(|m| matches!(m.message_type, DhtMessageType::Request) && matches!(m.payload, DhtNetworkOperation::FindNode { key: k } if k == key)).unwrap_or(false)).collect();
            let req_ids: BTreeMap<String, usize> = reqs.iter().map(|f| (f.dht.as_ref().unwrap().message_id.clone(), f.to)).collect();
            let req_sent_at: BTreeMap<String, u64> = reqs.iter().map(|f| (f.dht.as_ref().unwrap().message_id.clone(), f.t_ms)).collect();
            let all_replies: Vec<&simnet::Frame> = frames.iter().filter(|f| f.to == a && f.fate == Fate::Delivered && f.dht.as_ref().map(|m| matches!(m.message_type, DhtMessageType::Response) && req_ids.get(&m.message_id) == Some(&f.from)).unwrap_or(false)).collect();
            // a reply counts for the lookup only if it reaches the requester before that request's
            // timeout; replies within 3 ms of the deadline are judged leniently in both directions
            let deadline = |f: &simnet::Frame| req_sent_at.get(&f.dht.as_ref().unwrap().message_id).copied().unwrap_or(0) + timeout_ms;
            let replies: Vec<&simnet::Frame> = all_replies.iter().copied().filter(|f| f.deliver_ms + 3 <= deadline(f)).collect();
            let answered: BTreeSet<usize> = all_replies.iter().filter(|f| f.deliver_ms <= deadline(f) + 3).map(|f| f.from).collect();
            if all_replies.len() > replies.len() { ctx.probe("reply_after_timeout"); }
            let queried: Vec<usize> = reqs.iter().map(|f| f.to).collect();
            if reqs.len() >= 2 { ctx.nontrivial = true; }
            if reqs.len() >= 12 { ctx.probe("long_lookup_12_or_more_requests"); }
            if sc["topology"] == "flood" && replies.len() >= 11 { ctx.probe("flood_eleven_or_more_liar_replies"); }
            let ids: Vec<String> = result.iter().map(|d| d.peer_id.clone()).collect();
            ev!("lookup#{li} node={a} count={count} reqs={} replies={} -> {} entries [{}]", reqs.len(), replies.len(), result.len(), ids.iter().map(|i| dir.ids.get(i).map(|x| x.to_string()).unwrap_or_else(|| "?".into())).collect::<Vec<_>>().join(","));
            let situation = format!("{}:ident_{}", if fault_free { "fault_free" } else { "faults" }, if ident_a { "a" } else { "b" });

            // 1. at most count
            if result.len() > count {
                ctx.violate("C01.result.more_than_requested", situation.clone(), format!("lookup #{li}: {} entries returned, {count} requested", result.len()));
            }
            // 2. distinct identifiers and distinct peers
            let idset: BTreeSet<&String> = ids.iter().collect();
            if idset.len() != ids.len() {
                ctx.violate("C01.result.duplicate_identifier", situation.clone(), format!("lookup #{li}: an identifier appears twice in the result"));
            }
            let as_nodes: Vec<Option<usize>> = ids.iter().map(|i| dir.ids.get(i).copied()).collect();
            let known: Vec<usize> = as_nodes.iter().flatten().copied().collect();
            if sc["topology"] == "flood" && known.contains(&1) { ctx.probe("flood_hidden_node_found"); }
            if known.iter().collect::<BTreeSet<_>>().len() != known.len() {
                ctx.violate("C01.result.same_peer_under_two_identifiers", situation.clone(), format!("lookup #{li}: the result names one peer twice under different identifiers: {ids:?}"));
            }
            // 3. ascending under the positions the lookup itself uses
            let pos_used: Vec<[u8; 32]> = result.iter().map(|d| d.cached_dht_key.as_ref().map(|k| *k.as_bytes()).unwrap_or_else(|| derive_dht_key_from_peer_id(&d.peer_id))).collect();
            if pos_used.windows(2).any(|w| xor(&w[0], &key) > xor(&w[1], &key)) {
                ctx.violate("C01.result.not_ascending", situation.clone(), format!("lookup #{li}: result is not in ascending XOR distance"));
            }
            // 4. provenance: self or a peer that answered during this lookup
            for (i, nd) in as_nodes.iter().enumerate() {
                match nd {
                    Some(x) if *x == a => {}
                    Some(x) if answered.contains(x) => {}
                    Some(x) => {
                        ctx.violate("C01.result.peer_did_not_answer", situation.clone(), format!("lookup #{li}: entry {} (node {x}) neither is the local node nor answered a request of this lookup", ids[i]));
                    }
                    None => {
                        if !stubs.iter().any(|s| s.tid == ids[i] && answered.contains(&s.idx)) {
                            ctx.violate("C01.result.unknown_identifier", situation.clone(), format!("lookup #{li}: entry {} is no identifier of any node in the network", ids[i]));
                        }
                    }
                }
            }
            // 5. never a request to the local node; 6. no destination twice; 7. bounded
            if queried.iter().any(|q| *q == a) {
                ctx.violate("C01.rpc.sent_to_local_node", situation.clone(), format!("lookup #{li}: a request was addressed to the local node"));
            }
            let qset: BTreeSet<usize> = queried.iter().copied().collect();
            if qset.len() != queried.len() {
                ctx.violate("C01.rpc.peer_queried_twice", situation.clone(), format!("lookup #{li}: destinations {queried:?}"));
            }
            if reqs.len() > 60 {
                ctx.violate("C01.rpc.request_bound_exceeded", situation.clone(), format!("lookup #{li}: {} requests", reqs.len()));
            }
            // ---- closure over everything the lookup learned (serial regime: one lookup in flight)
            // node -> (position the lookup would use, time the lookup learned of it)
            let mut learned: BTreeMap<usize, ([u8; 32], u64)> = BTreeMap::new();
            for d in &local0 {
                if let Some(x) = dir.ids.get(&d.peer_id) {
                    let p = d.cached_dht_key.as_ref().map(|k| *k.as_bytes()).unwrap_or_else(|| derive_dht_key_from_peer_id(&d.peer_id));
                    let e = learned.entry(*x).or_insert((p, t_start));
                    if xor(&p, &key) < xor(&e.0, &key) { e.0 = p; }
                }
            }
            // every contact named in a reply: address -> position (for judging dials to made-up contacts)
            let mut named_at: BTreeMap<String, [u8; 32]> = BTreeMap::new();
            for f in &replies {
                if let Some(DhtNetworkResult::NodesFound { nodes: ns, .. }) = f.dht.as_ref().and_then(|m| m.result.as_ref()) {
                    for d in ns.iter().take(20) {
                        named_at.entry(d.address.split(" (").next().unwrap_or("").to_string()).or_insert_with(|| derive_dht_key_from_peer_id(&d.peer_id));
                        if let Some(x) = dir.ids.get(&d.peer_id) {
                            let p = match d.distance.as_ref() { Some(v) if v.len() == 32 => { let mut b = [0u8; 32]; b.copy_from_slice(v); b } _ => derive_dht_key_from_peer_id(&d.peer_id) };
                            let e = learned.entry(*x).or_insert((p, f.deliver_ms));
                            if xor(&p, &key) < xor(&e.0, &key) { e.0 = p; }
                        }
                    }
                }
            }
            // "failed to answer" includes peers the lookup tried to reach and could not: a dial that was
            // refused, black-holed, or that did not complete before the caller gave up (no connection exists)
            let my_dials: Vec<(u64, usize, SocketAddr, Option<usize>, bool)> = net.dials().into_iter().filter(|(t, from, _, _, _)| *from == a && *t >= t_start).collect();
            let dial_failed: BTreeSet<usize> = my_dials.iter().filter(|(_, _, _, target, ok)| target.map(|x| !*ok || !net.connected(nodes[a].idx, x)).unwrap_or(false)).filter_map(|d| d.3).collect();
            // every candidate the lookup spent budget on: (time, distance of that candidate to the key)
            let mut attempts: Vec<(u64, [u8; 32])> = Vec::new();
            for f in &reqs {
                let pos = if f.to < n { dir.pos_tid[f.to] } else { derive_dht_key_from_peer_id(&net.tid(f.to)) };
                attempts.push((f.t_ms, xor(&pos, &key)));
            }
            for (t, _, addr, target, ok) in &my_dials {
                if *ok && target.is_some() { continue; } // followed by a request, counted above
                let pos = match target { Some(x) if *x < n => Some(dir.pos_tid[*x]), Some(x) => Some(derive_dht_key_from_peer_id(&net.tid(*x))), None => named_at.get(&addr.to_string()).copied() };
                // a dial we cannot attribute counts as an attempt on a closest-possible candidate
                attempts.push((*t, pos.map(|p| xor(&p, &key)).unwrap_or([0u8; 32])));
            }
            // The request bound wins over closure: a lookup that has used up its 20 rounds must stop. What it
            // may not do is spend rounds on candidates farther than a peer it already knew of. So an
            // unqueried closer peer is excused only if the budget is plausibly exhausted (>= 20 attempts)
            // and every attempt made after the peer was learned went to a closer candidate.
            if attempts.len() >= 20 { ctx.probe("lookup_budget_exhausted"); }
            if let Some(far) = pos_used.last() {
                let far_d = xor(far, &key);
                for (x, (p, t_learned)) in &learned {
                    if *x == a || qset.contains(x) || dial_failed.contains(x) { continue; }
                    let dp = xor(p, &key);
                    if dp < far_d {
                        let farther_attempt_later = attempts.iter().any(|(t, d)| *t >= *t_learned && *t > t_start && *d > dp);
                        if attempts.len() >= 20 && !farther_attempt_later { ctx.probe("closure_excused_by_request_bound"); continue; }
                        ctx.violate("C01.closure.closer_learned_peer_left_unqueried", situation.clone(), format!("lookup #{li} at node {a} (count {count}): node {x} was learned (local table or a reply), is strictly closer than the farthest returned entry, and was never sent a request ({} candidates were attempted{}); queried {queried:?}, result {:?}", attempts.len(), if farther_attempt_later { ", some of them farther and later" } else { "" }, as_nodes));
                        break;
                    }
                }
            }
            // ---- exactness: responsive full mesh, configuration (a), no liars
            if fault_free && mesh && ident_a {
                let mut all: Vec<usize> = (0..n).collect();
                all.sort_by_key(|x| xor(&dir.pos_tid[*x], &key));
                all.truncate(count);
                let got: Vec<usize> = known.clone();
                ctx.probe("exactness_checked");
                if got != all {
                    ctx.violate("C01.exact.not_the_k_globally_closest", format!("n={}", if n <= 4 { "<=4" } else { ">4" }), format!("lookup #{li} at node {a}, full mesh of {n}, count {count}: returned nodes {got:?}, the {} globally closest are {all:?}", all.len()));
                }
            }
        }
        for (k, v) in net.fired() { for _ in 0..v { ctx.fault(&k); } }
        for s in &stubs { if s.replies() > 0 { ctx.fault("liar_reply"); } }
        // tear down
        for nd in &nodes { nd.manager.transport().verif_connection_lost("").await; }
        net.shutdown();
    });
    drop(rt);
    ctx.probes.entry("exactness_checked".into()).or_insert(0);
    ctx.probes.entry("long_lookup_12_or_more_requests".into()).or_insert(0);
    ctx.probes.entry("reply_after_timeout".into()).or_insert(0);
    ctx.probes.entry("flood_eleven_or_more_liar_replies".into()).or_insert(0);
    ctx.probes.entry("flood_hidden_node_found".into()).or_insert(0);
    ctx.probes.entry("lookup_budget_exhausted".into()).or_insert(0);
    ctx.probes.entry("closure_excused_by_request_bound".into()).or_insert(0);
    ctx.finish()
}
