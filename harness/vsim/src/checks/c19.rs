//! C19 — addresses survive every textual round trip the library itself performs.
//!
//! Two parts in every run:
//!  (flow)   SIM-NET: real nodes listening on drawn IPv4/IPv6 addresses (boundary octets
//!           and ports, loopback, mapped, link-local, global) connect, look each other up
//!           and store values; every address string that crosses a component boundary is
//!           observed where it is consumed: dials at the transport seam, address strings
//!           in DHT replies, routing-table entries and the admission counters behind them.
//!  (direct) the same drawn addresses (plus the exhaustive boundary grid over the whole
//!           batch) go through the four-word, Display/FromStr and serde round trips, and
//!           malformed strings through FromStr. These calls have no schedule or fault
//!           dimension; they are included because the property's first sentence is about them.

use crate::ev;
use crate::simkit::shrink::drop_chunks;
use crate::simkit::{CheckDef, Ctx, Rng, RunReport, Tier, sim_runtime};
use saorsa_core::address::NetworkAddress;
use saorsa_core::dht_network_manager::{DhtMessageType, DhtNetworkResult};
use serde_json::{Value, json};
use std::collections::BTreeMap;
use std::net::{IpAddr, Ipv4Addr, Ipv6Addr, SocketAddr};
use std::str::FromStr;
use std::time::Duration;

use super::c01::build_world;

pub static DEF: CheckDef = CheckDef {
    id: "C19",
    level: "exploration",
    technique: "deterministic multi-node network simulation with address-flow monitors: real nodes on drawn IPv4/IPv6 listen addresses exchange lookups and stores; every dial at the transport seam, every address string in a DHT reply and every routing-table entry is compared with the true socket address of the peer it names, and the admission counters with the entries they must account for; plus direct round-trip calls (four words, Display/FromStr, serde, malformed strings) on the same drawn addresses",
    runs: (1000, 40000),
    generate,
    execute,
    shrink,
    rule: "each run = 3..8 real nodes in a mesh/star/line on addresses drawn from {IPv4 with boundary octets 0/1/127/128/254/255 and ports 1/1023/1024/65535, loopback with distinct ports, IPv6 loopback, IPv4-mapped, link-local, unique-local, global with zero runs, global with all eight groups set}, 2..6 lookups/puts from drawn nodes; 26 direct addresses per run: over the batch the grid {0,1,127,128,254,255}^4 x {0,1,65534,65535} is walked exhaustively (run index selects the slice) and the rest sampled uniformly from 2^48 and from the IPv6 classes; 6 word-form variants (hyphen, space, dot, mixed case, doubled separator, surrounding blanks) and 12 malformed strings per run; non-trivial = at least one address string crossed from a reply into a dial and at least one boundary address was round-tripped; distinct = distinct hash of the observation log",
    real_components: &["address::NetworkAddress (encode/decode four words via four-word-networking, Display, FromStr, serde)", "DhtNetworkManager (handle_peer_connected, reply building, dial_candidate, multiaddr_from_address)", "DhtCoreEngine::add_node admission gates and IPDiversityEnforcer counters", "TransportHandle connect path up to the seam"],
    stubbed_components: &["ant-quic: in-memory network keyed by socket address"],
    assumptions: &["a word-form variant may be rejected; it must never decode to a different address", "the direct round-trip calls are input sampling, not simulation; they are reported separately in the probes"],
};

const OCT: [u8; 6] = [0, 1, 127, 128, 254, 255];
const PORTS: [u16; 4] = [0, 1, 65534, 65535];

fn v6_of(r: &mut Rng, class: &str) -> Ipv6Addr {
    let x = r.below(0xffff) as u16;
    let y = r.below(0xffff) as u16;
    match class {
        "loopback" => Ipv6Addr::LOCALHOST,
        "mapped" => Ipv4Addr::new(11 + r.below(200) as u8, r.below(256) as u8, r.below(256) as u8, 1 + r.below(250) as u8).to_ipv6_mapped(),
        "link_local" => Ipv6Addr::new(0xfe80, 0, 0, 0, x, y, 1, 1 + r.below(100) as u16),
        "unique_local" => Ipv6Addr::new(0xfd00 + r.below(256) as u16, x, y, 0, 0, 0, 0, 1),
        // every group drawn: nothing for the encoder to compress
        "full" => { let g: Vec<u16> = (0..8).map(|i| if i == 0 { 0x2000 + r.below(0x1000) as u16 } else { 1 + r.below(0xfffe) as u16 }).collect(); Ipv6Addr::new(g[0], g[1], g[2], g[3], g[4], g[5], g[6], g[7]) }
        // well-known prefixes followed by drawn groups (the encoder has special cases for several of them)
        "prefixed" => {
            let pre: &[u16] = *r.pick(&[&[0x2001, 0x0db8][..], &[0x2001, 0][..], &[0x2002][..], &[0x2600][..], &[0x2a00, 0x1450][..], &[0xff02][..], &[0x64, 0xff9b][..], &[0xfe80][..], &[0xfc00][..], &[0x2001, 0x0db8, 0xffff][..]]);
            let mut g: Vec<u16> = pre.to_vec();
            let zero_run = r.chance(1, 3);
            while g.len() < 8 { g.push(if zero_run && g.len() < 6 { 0 } else { r.below(0x10000) as u16 }); }
            Ipv6Addr::new(g[0], g[1], g[2], g[3], g[4], g[5], g[6], g[7])
        }
        "random" => Ipv6Addr::from(((r.next_u64() as u128) << 64) | r.next_u64() as u128),
        _ => Ipv6Addr::new(0x2001, 0x0db8 + r.below(100) as u16, x, y, 0, 0, 0, 1 + r.below(100) as u16),
    }
}

fn generate(seed: u64, tier: Tier) -> Value {
    let mut r = Rng::new(seed);
    let n = r.range(3, 8);
    let topo = *r.pick(&["mesh", "mesh", "star", "line"]);
    let edges: Vec<Value> = super::c01::gen_topology(&mut r, n, topo).into_iter().map(|(a, b)| json!([a, b])).collect();
    let family = *r.pick(&["v4", "v4", "v4_loopback", "v6_global", "v6_mixed", "mixed"]);
    let mut nodes = Vec::new();
    for i in 0..n {
        let port = *r.pick(&[1u16, 1023, 1024, 9000, 65535]);
        let fam = if family == "mixed" { *r.pick(&["v4", "v6_global", "v6_mixed"]) } else { family };
        let addr: SocketAddr = match fam {
            "v4" => SocketAddr::new(IpAddr::V4(Ipv4Addr::new(*r.pick(&[1u8, 11, 126, 128, 191, 192, 223]), *r.pick(&OCT), *r.pick(&OCT), 1 + i as u8)), port),
            "v4_loopback" => SocketAddr::new(IpAddr::V4(Ipv4Addr::new(127, 0, 0, 1)), 20000 + i as u16 * 7 + r.below(5) as u16),
            "v6_global" => SocketAddr::new(IpAddr::V6(v6_of(&mut r, "global")), port),
            _ => { let c = *r.pick(&["loopback", "mapped", "link_local", "unique_local", "global", "full", "prefixed"]); SocketAddr::new(IpAddr::V6(v6_of(&mut r, c)), if c == "loopback" { 21000 + i as u16 } else { port }) }
        };
        nodes.push(json!({"tid_salt": r.below(1 << 40), "addr": addr.to_string()}));
    }
    let mut ops = Vec::new();
    for _ in 0..r.range(2, 6) { ops.push(json!({"node": r.below(n), "kind": *r.pick(&["lookup", "lookup", "put", "get"]), "key_of": r.below(n), "salt": r.below(1 << 30)})); }
    let _ = tier;
    json!({"property": "C19", "seed": seed, "net_seed": r.below(1 << 40), "n": n, "topology": topo, "edges": edges, "ident": if r.chance(2, 3) { "a" } else { "b" }, "k": 8, "timeout_ms": 1000,
           "nodes": nodes, "ops": ops, "faults": {"silence": [], "slow": [], "drops": [], "dial": []}, "liars": [], "latency_ms": 2, "jitter_ms": 3,
           "grid_slice": r.below(1 << 20), "direct_salt": r.below(1 << 40)})
}

fn shrink(sc: &Value) -> Vec<Value> {
    let mut v = drop_chunks(sc, "ops");
    v.extend(drop_chunks(sc, "edges"));
    v
}

fn direct_addresses(sc: &Value) -> Vec<SocketAddr> {
    let mut r = Rng::new(sc["direct_salt"].as_u64().unwrap_or(0));
    let mut out = Vec::new();
    // exhaustive grid, 8 consecutive points per run
    let total = 6u64 * 6 * 6 * 6 * 4;
    let start = (sc["grid_slice"].as_u64().unwrap_or(0) * 8) % total;
    for j in 0..8 {
        let mut g = (start + j) % total;
        let p = PORTS[(g % 4) as usize]; g /= 4;
        let d = OCT[(g % 6) as usize]; g /= 6;
        let c = OCT[(g % 6) as usize]; g /= 6;
        let b = OCT[(g % 6) as usize]; g /= 6;
        let a = OCT[(g % 6) as usize];
        out.push(SocketAddr::new(IpAddr::V4(Ipv4Addr::new(a, b, c, d)), p));
    }
    for _ in 0..8 { let x = r.next_u64(); out.push(SocketAddr::new(IpAddr::V4(Ipv4Addr::from((x >> 16) as u32)), x as u16)); }
    for c in ["loopback", "mapped", "link_local", "unique_local", "global", "full", "prefixed", "prefixed", "prefixed", "random"] {
        let ip = v6_of(&mut r, c);
        out.push(SocketAddr::new(IpAddr::V6(ip), *r.pick(&[0u16, 1, 443, 65535])));
    }
    out
}

fn class_of(a: &SocketAddr) -> String {
    let boundary_port = PORTS.contains(&a.port());
    match a.ip() {
        IpAddr::V4(v) => { let o = v.octets(); format!("v4:{}:{}", if o.iter().all(|x| OCT.contains(x)) { "boundary_octets" } else { "general" }, if boundary_port { "boundary_port" } else { "port" }) }
        IpAddr::V6(v) => format!("v6:{}", if v.is_loopback() { "loopback" } else if v.to_ipv4_mapped().is_some() { "mapped" } else if (v.segments()[0] & 0xffc0) == 0xfe80 { "link_local" } else if (v.segments()[0] & 0xfe00) == 0xfc00 { "unique_local" } else { "global" }),
    }
}

trait OrDefaultPair { fn unwrap_or_default_pair(self) -> (String, SocketAddr); }
impl OrDefaultPair for Option<(String, SocketAddr)> {
    fn unwrap_or_default_pair(self) -> (String, SocketAddr) { self.unwrap_or((String::new(), SocketAddr::new(IpAddr::V4(Ipv4Addr::UNSPECIFIED), 0))) }
}

fn direct_checks(ctx: &mut Ctx, sc: &Value) {
    let addrs = direct_addresses(sc);
    let mut r = Rng::new(sc["direct_salt"].as_u64().unwrap_or(0) ^ 0x19);
    for sa in &addrs {
        ctx.ops += 1;
        let cls = class_of(sa);
        if cls.contains("boundary") { ctx.probe("direct_boundary_address"); }
        let na = NetworkAddress::new(*sa);
        if na.socket_addr() != *sa { ctx.violate("C19.direct.constructor_changed_address", cls.clone(), format!("NetworkAddress::new({sa}) holds {}", na.socket_addr())); }
        // (1) four-word form
        match na.four_words() {
            Some(w) => {
                ctx.probe("direct_four_word_form_produced");
                let w = w.to_string();
                match NetworkAddress::from_four_words(&w) {
                    Ok(back) if back.socket_addr() == *sa => {}
                    Ok(back) => ctx.violate("C19.direct.four_words_decode_to_other_address", cls.clone(), format!("{sa} -> `{w}` -> {}", back.socket_addr())),
                    Err(e) => ctx.violate("C19.direct.four_words_do_not_decode", cls.clone(), format!("{sa} -> `{w}` -> error {e}")),
                }
                let variants = [w.replace('-', " "), w.replace('-', "."), w.to_uppercase(), w.replace('-', "--"), format!("  {w} "), { let mut c = w.clone(); if let Some(f) = c.get_mut(0..1) { f.make_ascii_uppercase(); } c }];
                for v in variants {
                    for parsed in [NetworkAddress::from_four_words(&v).ok(), NetworkAddress::from_str(&v).ok()].into_iter().flatten() {
                        if parsed.socket_addr() != *sa { ctx.violate("C19.direct.word_variant_decodes_to_other_address", cls.clone(), format!("variant `{v}` of the words of {sa} decodes to {}", parsed.socket_addr())); }
                    }
                }
            }
            None => ctx.probe("direct_no_four_word_form"),
        }
        // (2) the library's own rendering parses back
        let shown = na.to_string();
        match NetworkAddress::from_str(&shown) {
            Ok(back) if back.socket_addr() == *sa => {}
            Ok(back) => ctx.violate("C19.direct.rendering_parses_to_other_address", cls.clone(), format!("`{shown}` parses to {}", back.socket_addr())),
            Err(_) => ctx.violate("C19.direct.rendering_does_not_parse", format!("{}:{}", cls.split(':').next().unwrap_or(""), if na.four_words().is_some() { "with_words" } else { "plain" }), format!("NetworkAddress::from_str(`{shown}`) fails although the string is the library's own Display output for {sa}")),
        }
        // (3) serde
        match serde_json::to_string(&na).ok().and_then(|j| serde_json::from_str::<NetworkAddress>(&j).ok()) {
            Some(b) if b == na => {}
            other => ctx.violate("C19.direct.serde_json_round_trip", cls.clone(), format!("{sa}: {:?}", other.map(|x| x.socket_addr()))),
        }
        match postcard::to_stdvec(&na).ok().and_then(|b| postcard::from_bytes::<NetworkAddress>(&b).ok()) {
            Some(b) if b == na => {}
            other => ctx.violate("C19.direct.postcard_round_trip", cls.clone(), format!("{sa}: {:?}", other.map(|x| x.socket_addr()))),
        }
    }
    // (5) bootstrap contacts: the word encoder of the bootstrap module, and address lists
    //     written into a configuration (plain, library rendering, word form) read back
    {
        let enc = saorsa_core::bootstrap::WordEncoder::new();
        let mut cfg = saorsa_core::Config::default();
        cfg.network.bootstrap_nodes.clear();
        let mut want: Vec<SocketAddr> = Vec::new();
        for sa in &addrs {
            let cls = class_of(sa);
            match enc.encode_socket_addr(sa) {
                Ok(w) => {
                    ctx.probe("bootstrap_word_form_produced");
                    match enc.decode_to_socket_addr(&w) {
                        Ok(back) if back == *sa => {}
                        Ok(back) => ctx.violate("C19.bootstrap.words_decode_to_other_address", cls.clone(), format!("WordEncoder: {sa} -> `{}` -> {back}", w.0)),
                        Err(e) => ctx.violate("C19.bootstrap.words_do_not_decode", cls.clone(), format!("WordEncoder: {sa} -> `{}` -> error {e}", w.0)),
                    }
                    // the textual form handed on (dots or hyphens) is re-read through from_string
                    for text in [w.0.clone(), w.0.replace('-', ".")] {
                        if let Ok(again) = saorsa_core::bootstrap::FourWordAddress::from_string(&text) {
                            if let Ok(back) = enc.decode_to_socket_addr(&again) {
                                if back != *sa { ctx.violate("C19.bootstrap.words_decode_to_other_address", format!("{cls}:reparsed"), format!("WordEncoder: `{text}` (from {sa}) -> {back}")); }
                            }
                        }
                    }
                    match enc.encode_multiaddr_string(&sa.to_string()) {
                        Ok(w2) if w2.0 == w.0 => {}
                        Ok(w2) => ctx.violate("C19.bootstrap.string_and_socket_encodings_differ", cls.clone(), format!("{sa}: `{}` vs `{}`", w.0, w2.0)),
                        Err(e) => ctx.violate("C19.bootstrap.string_and_socket_encodings_differ", cls.clone(), format!("{sa}: encode_multiaddr_string fails: {e}")),
                    }
                }
                Err(_) => ctx.probe("bootstrap_no_word_form"),
            }
            let na = NetworkAddress::new(*sa);
            let form = r.below(3);
            let text = match (form, na.four_words()) { (1, _) => na.to_string(), (2, Some(w)) => w.to_string(), _ => sa.to_string() };
            cfg.network.bootstrap_nodes.push(text);
            want.push(*sa);
        }
        match cfg.bootstrap_addrs() {
            Ok(got) => {
                for (i, (g, w)) in got.iter().zip(want.iter()).enumerate() {
                    if g.socket_addr() != *w { ctx.violate("C19.bootstrap.config_entry_read_as_other_address", class_of(w), format!("bootstrap_nodes[{i}] = `{}` read back as {} (written for {w})", cfg.network.bootstrap_nodes[i], g.socket_addr())); }
                }
                if got.len() != want.len() { ctx.violate("C19.bootstrap.config_entry_rejected", "count", format!("{} of {} entries read back", got.len(), want.len())); }
                ctx.probe("bootstrap_config_list_read_back");
            }
            Err(e) => {
                let first_bad = cfg.network.bootstrap_nodes.iter().zip(want.iter()).find(|(t, _)| t.parse::<NetworkAddress>().is_err());
                let (t, w) = first_bad.map(|(t, w)| (t.clone(), *w)).unwrap_or_default_pair();
                ctx.violate("C19.bootstrap.config_entry_rejected", class_of(&w).split(':').next().unwrap_or("").to_string(), format!("Config::bootstrap_addrs rejects `{t}`, a form the library produced for {w}: {e}"));
            }
        }
        // the identity module's word form of (IPv4, port) packed in six bytes
        for sa in &addrs {
            let SocketAddr::V4(v4) = sa else { continue };
            let mut six = v4.ip().octets().to_vec();
            six.extend_from_slice(&v4.port().to_be_bytes());
            match saorsa_core::identity::WordEncoder::encode(&six) {
                Ok(w) => {
                    ctx.probe("identity_word_form_produced");
                    match saorsa_core::identity::WordEncoder::decode(&w) {
                        Ok(back) if back == six => {}
                        Ok(back) => ctx.violate("C19.identity.words_decode_to_other_address", class_of(sa), format!("identity::WordEncoder: {sa} -> `{w}` -> {back:?}")),
                        Err(e) => ctx.violate("C19.identity.words_do_not_decode", class_of(sa), format!("identity::WordEncoder: {sa} -> `{w}` -> error {e}")),
                    }
                    match w.to_hash_prefix() {
                        Ok(pfx) if pfx[..] == six[..] => {}
                        Ok(pfx) => ctx.violate("C19.identity.words_decode_to_other_address", format!("{}:hash_prefix", class_of(sa)), format!("identity::FourWordAddress: {sa} -> `{w}` -> {pfx:?}")),
                        Err(e) => ctx.violate("C19.identity.words_do_not_decode", format!("{}:hash_prefix", class_of(sa)), format!("identity::FourWordAddress: {sa} -> `{w}` -> error {e}")),
                    }
                    // the textual form read again
                    match saorsa_core::identity::FourWordAddress::parse_str(w.as_str()) {
                        Ok(again) => { if let Ok(back) = saorsa_core::identity::WordEncoder::decode(&again) { if back != six { ctx.violate("C19.identity.words_decode_to_other_address", format!("{}:reparsed", class_of(sa)), format!("`{w}` reparsed decodes to {back:?}")); } } }
                        Err(e) => ctx.violate("C19.identity.words_do_not_decode", format!("{}:reparsed", class_of(sa)), format!("identity::FourWordAddress::parse_str rejects `{w}`, produced for {sa}: {e}")),
                    }
                }
                Err(_) => ctx.probe("identity_no_word_form"),
            }
        }
        // serde of a contact entry
        let ce = saorsa_core::ContactEntry::new("peer".to_string(), addrs.clone());
        match serde_json::to_string(&ce).ok().and_then(|j| serde_json::from_str::<saorsa_core::ContactEntry>(&j).ok()) {
            Some(b) if b.addresses == addrs => {}
            other => ctx.violate("C19.bootstrap.contact_entry_serde", "", format!("{:?}", other.map(|x| x.addresses))),
        }
    }
    // (4) malformed strings: an error, not a panic, not an address
    let base = addrs[r.usize_below(addrs.len())];
    let bad = vec![String::new(), " ".into(), format!("{}", base.ip()), format!("{}:", base.ip()), format!("{}:65536", base.ip()), format!("{}:-1", base.ip()), format!("{base} ("), format!("/ip4/{}/tcp/", base.ip()), "/ip4/999.1.1.1/tcp/80".into(), "/ip6/zz::1/tcp/80".into(), "a-b-c".into(), String::from_utf8_lossy(&r.bytes(24)).to_string(), "\u{0}\u{202e}:80".into(), "-".repeat(3000)];
    for b in bad {
        if NetworkAddress::from_str(&b).is_ok() && b.parse::<SocketAddr>().is_err() && !b.contains('-') {
            ctx.violate("C19.direct.malformed_string_accepted", "", format!("`{}` parsed as an address", b.chars().take(40).collect::<String>()));
        }
        ctx.probe("direct_malformed_string");
    }
}

fn execute(sc: &Value) -> RunReport {
    let seed = sc["seed"].as_u64().unwrap_or(0);
    let rt = sim_runtime(seed);
    let mut ctx = Ctx::new();
    direct_checks(&mut ctx, sc);
    rt.block_on(async {
        let (net, nodes) = match build_world(sc, false).await {
            Ok(x) => x,
            Err(e) => { ctx.harness_error = Some(format!("build_world: {e}")); return; }
        };
        let n = nodes.len();
        let tids: Vec<String> = nodes.iter().map(|x| x.tid.clone()).collect();
        let apps: Vec<String> = nodes.iter().map(|x| x.app_id.clone()).collect();
        let dir = super::c01::directory(&tids, &apps);
        let true_addr: Vec<SocketAddr> = nodes.iter().map(|x| x.addr).collect();
        for q in sc["ops"].as_array().cloned().unwrap_or_default() {
            let node = (q["node"].as_u64().unwrap_or(0) as usize) % n;
            let key = if q["salt"].as_u64().unwrap_or(0) % 2 == 0 { dir.pos_tid[(q["key_of"].as_u64().unwrap_or(0) as usize) % n] } else { Rng::new(q["salt"].as_u64().unwrap_or(0)).arr32() };
            let m = nodes[node].manager.clone();
            let fut = async {
                match q["kind"].as_str().unwrap_or("lookup") {
                    "put" => { let _ = m.put(key, vec![1, 2, 3]).await; }
                    "get" => { let _ = m.get(&key).await; }
                    _ => { let _ = m.find_closest_nodes(&key, 8).await; }
                }
            };
            let _ = tokio::time::timeout(Duration::from_secs(120), fut).await;
            ctx.ops += 1;
        }
        tokio::time::sleep(Duration::from_millis(300)).await;
        // ---- (a) address strings in replies sent by real nodes
        let mut crossed = 0u64;
        for f in net.frames() {
            let Some(m) = &f.dht else { continue };
            if !matches!(m.message_type, DhtMessageType::Response) { continue; }
            if let Some(DhtNetworkResult::NodesFound { nodes: listed, .. }) = &m.result {
                for nd in listed {
                    let Some(&who) = dir.ids.get(&nd.peer_id) else { continue };
                    crossed += 1;
                    let want = true_addr[who];
                    match NetworkAddress::from_str(&nd.address) {
                        Ok(a) if a.socket_addr() == want => {}
                        Ok(a) => ctx.violate("C19.flow.reply_address_parses_to_other_address", class_of(&want), format!("reply names node {who} at `{}` which parses to {} (true address {want})", nd.address, a.socket_addr())),
                        Err(_) => ctx.violate("C19.flow.reply_address_does_not_parse", class_of(&want).split(':').next().unwrap_or("").to_string(), format!("a DHT reply names node {who} at `{}`; NetworkAddress::from_str rejects this string produced by the library itself (true address {want})", nd.address)),
                    }
                }
            }
        }
        // ---- (b) dials at the seam go to true addresses of nodes
        let mut dial_after_reply = 0u64;
        for (t, from, addr, target, _ok) in net.dials() {
            let _ = (t, from);
            if !true_addr.contains(&addr) {
                ctx.violate("C19.flow.dial_to_address_of_no_node", "", format!("node {from} dialled {addr}, which is no node's address"));
            }
            if target.is_some() { dial_after_reply += 1; }
        }
        // ---- (c) routing entries and the admission counters behind them
        for (i, nd) in nodes.iter().enumerate() {
            let g = nd.manager.verif_dht();
            let g = g.read().await;
            let entries = g.verif_routing_entries().await;
            let counts = g.verif_ip_counts().await;
            let mut per_ip: BTreeMap<IpAddr, usize> = BTreeMap::new();
            for e in &entries {
                let who = dir.ids.get(&hex::encode(e.id.as_bytes())).copied();
                let Some(who) = who else { continue };
                let want = true_addr[who];
                match NetworkAddress::from_str(&e.address) {
                    Ok(a) if a.socket_addr() == want => {}
                    Ok(a) => ctx.violate("C19.flow.routing_entry_parses_to_other_address", class_of(&want), format!("node {i} lists node {who} at `{}` = {} (true {want})", e.address, a.socket_addr())),
                    Err(_) => ctx.violate("C19.flow.routing_entry_does_not_parse", class_of(&want).split(':').next().unwrap_or("").to_string(), format!("node {i} lists node {who} at `{}`, which NetworkAddress::from_str rejects", e.address)),
                }
                *per_ip.entry(want.ip()).or_insert(0) += 1;
            }
            let v4_entries: usize = per_ip.iter().filter(|(ip, _)| ip.is_ipv4()).map(|(_, c)| *c).sum();
            let v4_counted: usize = counts.iter().filter(|(k, _)| k.starts_with("v4/32:")).map(|(_, c)| *c).sum();
            let v6_entries: usize = per_ip.iter().filter(|(ip, _)| ip.is_ipv6()).map(|(_, c)| *c).sum();
            let v6_counted: usize = counts.iter().filter(|(k, _)| k.starts_with("v6/64:")).map(|(_, c)| *c).sum();
            ev!("node {i}: entries v4={v4_entries} v6={v6_entries}; admission counters v4/32={v4_counted} v6/64={v6_counted}");
            if v4_entries != v4_counted {
                ctx.violate("C19.flow.admission_gates_not_applied", "v4", format!("node {i} lists {v4_entries} IPv4 peers (added through the connect path with the library's own address rendering) but its per-address admission counters account for {v4_counted}"));
            }
            if v6_entries != v6_counted {
                ctx.violate("C19.flow.admission_gates_not_applied", "v6", format!("node {i} lists {v6_entries} IPv6 peers but its /64 admission counters account for {v6_counted}"));
            }
        }
        // ---- (d) peer lookup by address: the address strings kept in the peer registry,
        //      written by the connect/accept paths, are read back by get_peer_id_by_address
        for (i, nd) in nodes.iter().enumerate() {
            let connected = nd.transport.connected_peers().await;
            for (j, other) in nodes.iter().enumerate() {
                if i == j || !connected.contains(&other.tid) { continue; }
                let Some(info) = nd.transport.peer_info(&other.tid).await else { continue };
                // only the dialling side records the remote listen address; the accepting side records
                // what the connection reported, which is the same socket in this network
                ctx.probe("peer_lookup_by_address");
                for text in [true_addr[j].to_string(), NetworkAddress::new(true_addr[j]).socket_addr().to_string()] {
                    match nd.transport.get_peer_id_by_address(&text).await {
                        Some(id) if id == other.tid => {}
                        Some(id) => ctx.violate("C19.flow.address_lookup_names_other_peer", class_of(&true_addr[j]), format!("node {i}: get_peer_id_by_address(`{text}`) = {id}, but that is node {j}'s address ({})", other.tid)),
                        None => {
                            // acceptable only if the registry holds no address for that peer at all
                            if info.addresses.iter().any(|a| NetworkAddress::from_str(a).map(|x| x.socket_addr() == true_addr[j]).unwrap_or(false)) {
                                ctx.violate("C19.flow.address_lookup_misses_registered_peer", class_of(&true_addr[j]).split(':').next().unwrap_or("").to_string(), format!("node {i} keeps node {j} under {:?} but get_peer_id_by_address(`{text}`) finds nobody", info.addresses));
                            }
                        }
                    }
                }
                for a in &info.addresses {
                    match NetworkAddress::from_str(a) {
                        Ok(x) if x.socket_addr() == true_addr[j] => {}
                        Ok(x) => ctx.violate("C19.flow.registry_address_parses_to_other_address", class_of(&true_addr[j]), format!("node {i} keeps node {j} at `{a}` = {} (true {})", x.socket_addr(), true_addr[j])),
                        Err(_) => ctx.violate("C19.flow.registry_address_does_not_parse", class_of(&true_addr[j]).split(':').next().unwrap_or("").to_string(), format!("node {i} keeps node {j} at `{a}`, which does not parse")),
                    }
                }
            }
        }
        // ---- (e) bootstrap contacts through the cache file: what was added for a peer is what a
        //      reopened manager hands back (one run in three; the cache itself is ant-quic's)
        if sc["direct_salt"].as_u64().unwrap_or(0) % 3 == 0 {
            let scratch = crate::simkit::Scratch::new("c19");
            let mk = || saorsa_core::BootstrapConfig { cache_dir: scratch.path.join("cache"), max_peers: 1000, epsilon: 0.0, rate_limit: Default::default(), diversity: saorsa_core::security::IPDiversityConfig::permissive() };
            let addrs = direct_addresses(sc);
            let mut want: BTreeMap<String, Vec<SocketAddr>> = BTreeMap::new();
            match saorsa_core::BootstrapManager::with_config(mk()).await {
                Ok(b) => {
                    for (k, chunk) in addrs.chunks(3).enumerate() {
                        let id = format!("{:064x}", (k as u128 + 1) * 0x1_0001_0001_0001u128);
                        b.add_contact_trusted(saorsa_core::ContactEntry::new(id.clone(), chunk.to_vec())).await;
                        want.insert(id, chunk.to_vec());
                    }
                    for (id, w) in &want {
                        if let Some(cp) = b.get_peer(id).await {
                            let mut got = cp.addresses.clone(); got.sort();
                            let mut w2 = w.clone(); w2.sort();
                            if got != w2 { ctx.violate("C19.bootstrap.cache_returns_other_addresses", "same_process", format!("peer {id}: added {w2:?}, cache holds {got:?}")); }
                            ctx.probe("bootstrap_cache_read_back");
                        }
                    }
                    {
                        let all: std::collections::BTreeSet<SocketAddr> = want.values().flatten().copied().collect();
                        if let Ok(cs) = b.get_bootstrap_peers(64).await {
                            for c in cs { for a in c.addresses { if !all.contains(&a) { ctx.violate("C19.bootstrap.contact_names_unknown_address", "same_process", format!("get_bootstrap_peers lists {a}, which nobody added")); } } }
                        }
                    }
                    if let Err(e) = b.save().await { ctx.harness_error = Some(format!("bootstrap save: {e}")); }
                    drop(b);
                    match saorsa_core::BootstrapManager::with_config(mk()).await {
                        Ok(b2) => {
                            for (id, w) in &want {
                                match b2.get_peer(id).await {
                                    Some(cp) => {
                                        let mut got = cp.addresses.clone(); got.sort();
                                        let mut w2 = w.clone(); w2.sort();
                                        if got != w2 { ctx.violate("C19.bootstrap.cache_returns_other_addresses", "", format!("peer {id}: added {w2:?}, reopened cache holds {got:?}")); }
                                        ctx.probe("bootstrap_cache_reopened");
                                    }
                                    // whether ant-quic's cache persists a seed contact is ant-quic's business (the
                                    // repository's own test says as much); only what comes back is judged
                                    None => ctx.probe("bootstrap_cache_contact_not_persisted"),
                                }
                            }
                            let all: std::collections::BTreeSet<SocketAddr> = want.values().flatten().copied().collect();
                            if let Ok(cs) = b2.get_bootstrap_peers(64).await {
                                for c in cs { for a in c.addresses { if !all.contains(&a) { ctx.violate("C19.bootstrap.contact_names_unknown_address", "", format!("get_bootstrap_peers lists {a}, which nobody added")); } } }
                            }
                        }
                        Err(e) => ctx.harness_error = Some(format!("bootstrap reopen: {e}")),
                    }
                }
                Err(e) => ctx.harness_error = Some(format!("bootstrap manager: {e}")),
            }
            drop(scratch);
        }
        if crossed > 0 { ctx.probe("address_strings_in_replies"); }
        if dial_after_reply > 0 { ctx.probe("dials_observed"); }
        if crossed > 0 && dial_after_reply > 0 { ctx.nontrivial = true; }
        ctx.sim_ms += net.now_ms();
        net.shutdown();
    });
    drop(rt);
    for k in ["address_strings_in_replies", "dials_observed", "peer_lookup_by_address", "bootstrap_word_form_produced", "bootstrap_config_list_read_back", "identity_word_form_produced", "direct_boundary_address", "direct_four_word_form_produced", "direct_no_four_word_form", "direct_malformed_string"] { ctx.probes.entry(k.to_string()).or_insert(0); }
    ctx.finish()
}
