//! C14 — join and request rate limits hold for every arrival pattern.
//!
//! SIM-COMP on the simulated clock (`verif_hooks::SimInstant` replaces
//! `std::time::Instant` inside the limiter): 2..5 submitter tasks whose arrivals
//! are merged by a discrete-event queue; oracles are bounds (token bucket +
//! fixed window with the documented parameters), key isolation against twin
//! limiters that see one key group only, and "a denial never helps".

use crate::ev;
use crate::simkit::shrink::drop_chunks;
use crate::simkit::{CheckDef, Ctx, Rng, RunReport, Tier};
use saorsa_core::rate_limit::{Engine, EngineConfig, JoinRateLimiter, JoinRateLimiterConfig};
use saorsa_core::validation::{RateLimitConfig, RateLimiter};
use saorsa_core::verif_hooks;
use serde_json::{Value, json};
use std::collections::BTreeMap;
use std::net::{IpAddr, Ipv4Addr, Ipv6Addr};
use std::time::Duration;

pub static DEF: CheckDef = CheckDef {
    id: "C14",
    level: "exploration",
    technique: "deterministic component simulation of the limiters on a simulated clock: discrete-event merge of 2..5 submitter tasks; oracle = token-bucket and fixed-window bounds from the documented parameters, twin limiters per key group for isolation, denial-monotonicity",
    runs: (3000, 200000),
    generate,
    execute,
    shrink,
    rule: "each run = one limiter (JoinRateLimiter default/random config, rate_limit::Engine random config, validation::RateLimiter random config) + 10..200 arrivals over 2..5 tasks from few IPv4/IPv6 prefixes so that /64, /48, /24 keys collide, clock increments from {0, 1 ns, 1 ms, 1 s, W/2, W, W+1 ns, 2 h}; non-trivial = at least one admission and one denial; distinct = distinct hash of the (time, key, verdict) log",
    real_components: &["rate_limit::Engine / Bucket::try_consume", "rate_limit::JoinRateLimiter::check_join_allowed", "validation::RateLimiter::check_ip"],
    stubbed_components: &[],
    assumptions: &["limiter calls are synchronous single lock sections; concurrent tasks contribute orderings, not preemption", "the limiter reads the simulated clock through the verif-hooks seam (std Instant swapped for SimInstant)"],
};

const NS: u128 = 1_000_000_000;

fn gen_ip(r: &mut Rng) -> String {
    if r.chance(1, 2) {
        // IPv6: few /48s, few /64s inside, many hosts
        let p48 = r.below(3);
        let p64 = r.below(3);
        let host = r.below(5);
        if r.chance(1, 12) {
            format!("::ffff:10.0.{}.{}", p64, host + 1)
        } else {
            format!("2001:db8:{:x}:{:x}::{:x}", p48 + 1, p64, host + 1)
        }
    } else {
        let a = r.below(2);
        let c = r.below(3);
        let h = r.below(6);
        format!("10.{}.{}.{}", a, c, h + 1)
    }
}

fn generate(seed: u64, tier: Tier) -> Value {
    let mut r = Rng::new(seed);
    let target = *r.pick(&["join", "join", "engine", "validation"]);
    let cfg = match target {
        "join" => {
            if r.chance(1, 3) {
                json!({"m64": 1, "m48": 5, "m24": 3, "gmax": 100, "gburst": 10})
            } else {
                json!({"m64": r.range(1, 4), "m48": r.range(1, 8), "m24": r.range(1, 5),
                       "gmax": *r.pick(&[1u64, 5, 100, 100000]), "gburst": *r.pick(&[1u64, 3, 10, 100000])})
            }
        }
        _ => {
            let w_ms = *r.pick(&[1u64, 100, 1000, 60_000]);
            let max = r.range(1, 12);
            let burst = *r.pick(&[1u64, 2, max, max + 3]);
            json!({"window_ms": w_ms, "max": max, "burst": burst})
        }
    };
    let w_ns: u64 = match target {
        "join" => 3_600_000_000_000,
        _ => cfg["window_ms"].as_u64().unwrap() * 1_000_000,
    };
    let tasks = r.range(2, 5);
    let n = match tier {
        Tier::Quick => r.range(10, 120),
        Tier::Thorough => r.range(10, 200),
    };
    let nkeys = r.range(1, 6);
    let mut arrivals = Vec::new();
    for _ in 0..n {
        let dt = *r.pick(&[0u64, 0, 0, 1, 1_000_000, 1_000_000_000, w_ns / 2, w_ns, w_ns + 1, 7_200_000_000_000, 60_000_000_000, 60_000_000_001]);
        let key = if target == "engine" { format!("k{}", r.below(nkeys)) } else { gen_ip(&mut r) };
        arrivals.push(json!({"task": r.below(tasks), "dt_ns": dt, "key": key}));
    }
    json!({"property": "C14", "seed": seed, "target": target, "cfg": cfg, "tasks": tasks, "arrivals": arrivals})
}

fn shrink(sc: &Value) -> Vec<Value> {
    drop_chunks(sc, "arrivals")
}

/// Bound model for one key of one token-bucket + fixed-window limiter.
struct KeyModel {
    burst: f64,
    max: u64,
    window_ns: u128,
    window_start: Option<u128>,
    window_count: u64,
    admitted: Vec<u128>,
    denied_at: Option<u128>,
}

impl KeyModel {
    fn new(burst: u64, max: u64, window_ns: u128) -> Self {
        KeyModel { burst: burst as f64, max, window_ns, window_start: None, window_count: 0, admitted: vec![], denied_at: None }
    }
    /// Record a consumption attempt that reached this key at `now` with result `ok`.
    /// Returns a violated clause, if any.
    fn observe(&mut self, now: u128, ok: bool) -> Option<(&'static str, String)> {
        match self.window_start {
            None => {
                self.window_start = Some(now);
                self.window_count = 0;
            }
            Some(ws) => {
                if now - ws > self.window_ns {
                    self.window_start = Some(now);
                    self.window_count = 0;
                }
            }
        }
        if ok {
            if self.denied_at == Some(now) {
                return Some(("admit_after_denial_same_instant", format!("admitted at t={now} right after a denial at the same instant")));
            }
            self.window_count += 1;
            self.admitted.push(now);
            if self.window_count > self.max {
                return Some(("window_max_exceeded", format!("{} admissions in one window (max {})", self.window_count, self.max)));
            }
            // token bound over every interval that starts at an earlier admission
            let rate = self.max as f64 / self.window_ns as f64;
            let n = self.admitted.len();
            for (i, t) in self.admitted.iter().enumerate() {
                let count = (n - i) as f64;
                let allowed = self.burst + (now - *t) as f64 * rate + 1e-6;
                if count > allowed {
                    return Some(("burst_plus_refill_exceeded", format!("{count} admissions in {} ns (burst {} + refill {:.3})", now - *t, self.burst, (now - *t) as f64 * rate)));
                }
            }
        } else {
            self.denied_at = Some(now);
        }
        None
    }
}

enum Lim {
    Join(JoinRateLimiter),
    Engine(Engine<String>),
    Validation(RateLimiter),
}

fn build(target: &str, cfg: &Value) -> Lim {
    match target {
        "join" => Lim::Join(JoinRateLimiter::new(JoinRateLimiterConfig {
            max_joins_per_64_per_hour: cfg["m64"].as_u64().unwrap_or(1) as u32,
            max_joins_per_48_per_hour: cfg["m48"].as_u64().unwrap_or(5) as u32,
            max_joins_per_24_per_hour: cfg["m24"].as_u64().unwrap_or(3) as u32,
            max_global_joins_per_minute: cfg["gmax"].as_u64().unwrap_or(100) as u32,
            global_burst_size: cfg["gburst"].as_u64().unwrap_or(10) as u32,
        })),
        "engine" => Lim::Engine(Engine::new(EngineConfig {
            window: Duration::from_millis(cfg["window_ms"].as_u64().unwrap_or(1000)),
            max_requests: cfg["max"].as_u64().unwrap_or(5) as u32,
            burst_size: cfg["burst"].as_u64().unwrap_or(5) as u32,
        })),
        _ => Lim::Validation(RateLimiter::new(RateLimitConfig {
            window: Duration::from_millis(cfg["window_ms"].as_u64().unwrap_or(1000)),
            max_requests: cfg["max"].as_u64().unwrap_or(5) as u32,
            burst_size: cfg["burst"].as_u64().unwrap_or(5) as u32,
            adaptive: false,
            cleanup_interval: Duration::from_secs(300),
        })),
    }
}

/// Verdict: "ok", or the level that denied.
fn call(l: &Lim, key: &str) -> String {
    match l {
        Lim::Join(j) => {
            let ip: IpAddr = key.parse().expect("ip");
            match j.check_join_allowed(&ip) {
                Ok(()) => "ok".into(),
                Err(e) => {
                    let s = format!("{e:?}");
                    if s.starts_with("Global") { "global".into() }
                    else if s.starts_with("Subnet64") { "s64".into() }
                    else if s.starts_with("Subnet48") { "s48".into() }
                    else { "s24".into() }
                }
            }
        }
        Lim::Engine(e) => if e.try_consume_key(&key.to_string()) { "ok".into() } else { "key".into() },
        Lim::Validation(v) => {
            let ip: IpAddr = key.parse().expect("ip");
            match v.check_ip(&ip) {
                Ok(()) => "ok".into(),
                Err(e) => if format!("{e}").contains("global") { "global".into() } else { "key".into() },
            }
        }
    }
}

fn p64(a: &Ipv6Addr) -> String { let s = a.segments(); format!("{:x}:{:x}:{:x}:{:x}", s[0], s[1], s[2], s[3]) }
fn p48(a: &Ipv6Addr) -> String { let s = a.segments(); format!("{:x}:{:x}:{:x}", s[0], s[1], s[2]) }
fn p24(a: &Ipv4Addr) -> String { let o = a.octets(); format!("{}.{}.{}", o[0], o[1], o[2]) }

fn group_of(target: &str, key: &str) -> String {
    if target == "join" {
        match key.parse::<IpAddr>().expect("ip") {
            IpAddr::V6(a) => format!("48:{}", p48(&a)),
            IpAddr::V4(a) => format!("24:{}", p24(&a)),
        }
    } else {
        key.to_string()
    }
}

fn execute(sc: &Value) -> RunReport {
    let mut ctx = Ctx::new();
    let target = sc["target"].as_str().unwrap_or("engine").to_string();
    let cfg = sc["cfg"].clone();
    let tasks = sc["tasks"].as_u64().unwrap_or(1).max(1);
    // discrete-event merge: per-task cumulative times, ties by (task, position)
    let mut clocks = vec![0u128; tasks as usize];
    let mut events: Vec<(u128, u64, usize, String)> = Vec::new();
    for (i, a) in sc["arrivals"].as_array().cloned().unwrap_or_default().iter().enumerate() {
        let t = (a["task"].as_u64().unwrap_or(0) % tasks) as usize;
        clocks[t] += a["dt_ns"].as_u64().unwrap_or(0) as u128;
        events.push((clocks[t], t as u64, i, a["key"].as_str().unwrap_or("k0").to_string()));
    }
    events.sort_by(|a, b| (a.0, a.1, a.2).cmp(&(b.0, b.1, b.2)));

    let main = build(&target, &cfg);
    // twins are built at the same instant as the main limiter (t = 0): a limiter's
    // global bucket anchors its first window at construction
    let mut twins: BTreeMap<String, (Lim, bool)> = BTreeMap::new(); // group -> (twin, tainted)
    for (_, _, _, key) in &events {
        let g = group_of(&target, key);
        twins.entry(g).or_insert_with(|| (build(&target, &cfg), false));
    }
    let mut models: BTreeMap<String, KeyModel> = BTreeMap::new();
    let mut now: u128 = 0;
    let mut admitted = 0u64;
    let mut denied = 0u64;
    let mut last_denied: Option<(u128, String)> = None;

    let (w_ns, max, burst) = if target == "join" { (3600 * NS, 0, 0) } else {
        (cfg["window_ms"].as_u64().unwrap_or(1000) as u128 * 1_000_000, cfg["max"].as_u64().unwrap_or(5), cfg["burst"].as_u64().unwrap_or(5))
    };

    for (t, task, idx, key) in events {
        if t > now {
            verif_hooks::advance(Duration::from_nanos((t - now) as u64));
            now = t;
        }
        let verdict = call(&main, &key);
        let ok = verdict == "ok";
        ctx.ops += 1;
        if ok { admitted += 1 } else { denied += 1 }
        ev!("t={now} task={task} #{idx} key={key} -> {verdict}");

        // denial-monotonicity: same key, same instant, right after a denial
        if let Some((dt, dk)) = &last_denied {
            if ok && *dt == now && *dk == key {
                ctx.violate("C14.denial.then_admitted_same_instant", target.clone(), format!("{key} denied and then admitted at the same instant t={now}"));
            }
        }
        last_denied = if ok { None } else { Some((now, key.clone())) };

        // bound models, per level
        let mut obs: Vec<(String, u64, u64, u128)> = Vec::new(); // (model key, burst, max, window)
        let group: String;
        match target.as_str() {
            "join" => {
                let ip: IpAddr = key.parse().expect("ip");
                let g = (cfg["gburst"].as_u64().unwrap_or(10), cfg["gmax"].as_u64().unwrap_or(100));
                // a level is "reached" only if all earlier levels passed; admissions (Ok) are
                // what the statement counts, so every level observes the final verdict only
                // when it was reached.
                obs.push(("global".into(), g.0, g.1, 60 * NS));
                match ip {
                    IpAddr::V6(a) => {
                        group = format!("48:{}", p48(&a));
                        if verdict != "global" {
                            let m = cfg["m64"].as_u64().unwrap_or(1);
                            obs.push((format!("64:{}", p64(&a)), m, m, 3600 * NS));
                            if verdict != "s64" {
                                let m = cfg["m48"].as_u64().unwrap_or(5);
                                obs.push((format!("48:{}", p48(&a)), m, m, 3600 * NS));
                            }
                        }
                    }
                    IpAddr::V4(a) => {
                        group = format!("24:{}", p24(&a));
                        if verdict != "global" {
                            let m = cfg["m24"].as_u64().unwrap_or(3);
                            obs.push((format!("24:{}", p24(&a)), m, m, 3600 * NS));
                        }
                    }
                }
            }
            "engine" => {
                group = key.clone();
                obs.push((format!("key:{key}"), burst, max, w_ns));
            }
            _ => {
                group = key.clone();
                obs.push(("global".into(), burst, max, w_ns));
                if verdict != "global" {
                    obs.push((format!("key:{key}"), burst, max, w_ns));
                }
            }
        }
        for (mk, b, m, w) in obs {
            let level = mk.split(':').next().unwrap_or("").to_string();
            let model = models.entry(mk.clone()).or_insert_with(|| {
                let mut km = KeyModel::new(b, m, w);
                // validation::RateLimiter's global bucket exists from construction (t = 0 in
                // every run), so its first window is anchored there, not at the first request
                if target == "validation" && mk == "global" {
                    km.window_start = Some(0);
                }
                km
            });
            // the level itself admitted iff the final verdict is ok or a *later* level denied
            let level_ok = match (level.as_str(), verdict.as_str()) {
                (_, "ok") => true,
                ("global", _) => verdict != "global",
                ("64", v) => v != "s64",
                ("48", v) => v != "s48",
                ("24", v) => v != "s24",
                ("key", v) => v != "key",
                _ => false,
            };
            // The statement bounds *admitted joins/requests*; count final admissions against
            // every level (an upper bound on Ok verdicts), and level passes against the level's
            // own budget (what the mechanism promises).
            if let Some((clause, detail)) = model.observe(now, level_ok) {
                ctx.violate(&format!("C14.bound.{clause}"), format!("{target}:{level}"), format!("key {mk}: {detail}"));
            }
        }

        // isolation: a twin limiter that only ever sees this key group, same instants
        let entry = twins.entry(group.clone()).or_insert_with(|| (build(&target, &cfg), false));
        if verdict == "global" && target != "engine" {
            entry.1 = true; // shared global budget denied: later verdicts may legitimately differ
            ctx.probe("global_denied");
        }
        let tv = call(&entry.0, &key);
        // compared as admitted / denied: when both worlds deny, which level names itself as the
        // reason depends on the order of the checks and on refill rounding at exact window
        // boundaries, and no budget of the key was consumed by anyone else either way
        if !entry.1 && (tv == "ok") != (verdict == "ok") {
            ctx.violate("C14.isolation.verdict_depends_on_other_keys", target.clone(), format!("t={now} key {key}: verdict {verdict} with other traffic, {tv} alone"));
        }
    }
    ctx.sim_ms = (now / 1_000_000) as u64;
    if admitted > 0 && denied > 0 { ctx.nontrivial = true; }
    if admitted > 0 { ctx.probe("admitted") }
    if denied > 0 { ctx.probe("denied") }
    ctx.finish()
}
