//! C12 — each peer sequence number is accepted at most once and only in order.
//!
//! SIM-COMP: 1..5 peers, 2..6 submitter tasks on the deterministic runtime and a
//! simulated wall clock; model = last accepted number per peer, applied at the
//! invocation (the lock section of the real code runs in the first poll, so the
//! invocation order is the linearisation order). Twin stores per peer for
//! independence. SIM-STORE part: sync, then reload from the file and from crash
//! images of the non-atomic write (old file, empty file, every/sampled prefix).

use crate::ev;
use crate::simkit::shrink::drop_chunks;
use crate::simkit::{CheckDef, Ctx, Rng, RunReport, Scratch, Tier, sim_runtime};
use saorsa_core::monotonic_counter::{
    BatchUpdateRequest, MonotonicCounterSystem, SequenceValidationResult as R,
};
use saorsa_core::peer_record::UserId;
use saorsa_core::verif_hooks;
use serde_json::{Value, json};
use std::cell::RefCell;
use std::collections::BTreeMap;
use std::rc::Rc;
use std::time::Duration;

pub static DEF: CheckDef = CheckDef {
    id: "C12",
    level: "exploration",
    technique: "deterministic component simulation of the counter store: seeded submitter tasks on a simulated clock against a per-peer last-accepted model (linearised at invocation), twin stores for peer independence, crash images of the non-atomic persistence write; real-thread interleavings of the lock section explored separately under shuttle",
    runs: (3000, 100000),
    generate,
    execute,
    shrink,
    rule: "each run = 1..5 peers, 2..6 submitter tasks, 10..120 operations from {validate (next, next+1, previous, 0, u64::MAX, random, concurrent duplicates), batch (in-batch duplicates, timestamps fresh / +61 s / -3601 s), cleanup, clock step (0 s .. 2 h, small backward), sync+reload with crash images}; non-trivial = at least one acceptance and one rejection; distinct = distinct hash of the (invocation, verdict) log",
    real_components: &["MonotonicCounterSystem (validate_sequence, batch_update, cleanup_old_sequences, get_peer_counter, start_sync_task/sync_counters, load_counters)"],
    stubbed_components: &[],
    assumptions: &["wall clock inside the store is the simulated one (verif-hooks)", "tokio::fs worker threads run real file I/O in a scratch directory; no simulated decision depends on their timing (auto-advance waits for them)"],
};

const T0: u64 = 1_700_000_000;

fn generate(seed: u64, tier: Tier) -> Value {
    let mut r = Rng::new(seed);
    let peers = r.range(1, 5);
    let tasks = r.range(2, 6);
    let n = match tier {
        Tier::Quick => r.range(10, 80),
        Tier::Thorough => r.range(10, 120),
    };
    let kinds = ["next", "next", "next", "next", "next1", "prev", "zero", "max", "rand", "dup_prev_hash"];
    let mut ops = Vec::new();
    for _ in 0..n {
        let k = r.below(100);
        let task = r.below(tasks);
        let delay = *r.pick(&[0u64, 0, 0, 1, 5, 1000]);
        let mut op = if k < 60 {
            json!({"op": "validate", "peer": r.below(peers), "kind": *r.pick(&kinds), "rand": r.below(50), "hash": r.below(4)})
        } else if k < 78 {
            let m = r.range(1, 6);
            let items: Vec<Value> = (0..m)
                .map(|_| json!({"peer": r.below(peers), "kind": *r.pick(&kinds), "rand": r.below(50), "hash": r.below(4),
                                "ts_off": *r.pick(&[0i64, 0, 0, 0, -10, 59, 61, 120, -3599, -3601, -7200])}))
                .collect();
            json!({"op": "batch", "items": items})
        } else if k < 84 {
            json!({"op": "cleanup"})
        } else if k < 94 {
            json!({"op": "clock", "secs": *r.pick(&[0i64, 1, 59, 61, 3599, 3601, 7200, -5, -30])})
        } else {
            json!({"op": "reload", "images": if tier == Tier::Quick { 12 } else { 64 }})
        };
        op["task"] = json!(task);
        op["delay_ms"] = json!(delay);
        ops.push(op);
    }
    // one run in three keeps the store's own periodic sync task running for the whole history
    let bg = if r.chance(1, 3) { *r.pick(&[20u64, 200, 1500]) } else { 0 };
    json!({"property": "C12", "seed": seed, "peers": peers, "tasks": tasks, "ops": ops, "bg_sync_ms": bg})
}

fn shrink(sc: &Value) -> Vec<Value> {
    drop_chunks(sc, "ops")
}

fn uid(p: u64) -> UserId {
    let mut h = [0x11u8; 32];
    h[0] = p as u8;
    UserId::from_bytes(h)
}
fn mhash(h: u64) -> [u8; 32] {
    [h as u8 ^ 0x5a; 32]
}

#[derive(Default, Clone)]
struct Model {
    last: BTreeMap<u64, u64>,
    accepted: BTreeMap<u64, Vec<u64>>,
}

fn resolve(kind: &str, last: u64, rnd: u64) -> u64 {
    match kind {
        "next" => last.wrapping_add(1),
        "next1" => last.wrapping_add(2),
        "prev" | "dup_prev_hash" => last,
        "zero" => 0,
        "max" => u64::MAX,
        _ => rnd,
    }
}

fn verdict_name(r: &R) -> String {
    match r {
        R::Valid => "valid".into(),
        R::Replay => "replay".into(),
        R::TooOld => "too_old".into(),
        R::Gap { expected, received } => format!("gap({expected},{received})"),
        R::FromFuture => "future".into(),
    }
}

struct World {
    sys: RefCell<Option<MonotonicCounterSystem>>,
    twins: RefCell<BTreeMap<u64, MonotonicCounterSystem>>,
    model: RefCell<Model>,
    ctx: RefCell<Ctx>,
    dir: std::path::PathBuf,
    reloads: RefCell<u64>,
    old_file: RefCell<Option<Vec<u8>>>,
    /// period of the store's own background sync task (0 = not running; reloads then start one for a single tick)
    bg_sync_ms: u64,
}

/// Judge one submission. `predicted_accept` was computed from the model at invocation.
fn judge(w: &World, what: &str, peer: u64, seq: u64, predicted_accept: bool, last_before: u64, got: &R) {
    let mut ctx = w.ctx.borrow_mut();
    let accepted = matches!(got, R::Valid);
    if accepted != predicted_accept {
        if accepted {
            ctx.violate(
                "C12.accept.not_next_in_order",
                format!("{what}:{}", if seq <= last_before { "seq<=last" } else { "seq>last+1_or_window" }),
                format!("peer {peer}: submission {seq} accepted although last accepted was {last_before} / timestamp outside the window"),
            );
        } else {
            ctx.violate(
                "C12.reject.next_in_order",
                format!("{what}:{}", verdict_name(got).split('(').next().unwrap_or("")),
                format!("peer {peer}: submission {seq} = last+1 (last {last_before}) inside the window was classified {}", verdict_name(got)),
            );
        }
    }
    if let R::Gap { expected, received } = got {
        if *expected != last_before.wrapping_add(1) || *received != seq {
            ctx.violate("C12.gap.wrong_expected", what.to_string(), format!("peer {peer}: Gap{{expected {expected}, received {received}}} but last accepted is {last_before}, submitted {seq}"));
        }
    }
}

async fn check_state(w: &World, peer: u64) {
    let model_last = w.model.borrow().last.get(&peer).copied().unwrap_or(0);
    let real = {
        let g = w.sys.borrow();
        let Some(sys) = g.as_ref() else { return };
        sys.get_peer_counter(&uid(peer)).await.map(|c| c.last_valid_sequence)
    };
    // state is compared only when no other task interleaved: model is applied at
    // invocation and the real lock section runs in the first poll, so both are in
    // step at every poll boundary
    let model_now = w.model.borrow().last.get(&peer).copied().unwrap_or(0);
    if model_now == model_last {
        let r = real.unwrap_or(0);
        if r != model_last {
            w.ctx.borrow_mut().violate("C12.state.counter_differs_from_model", "", format!("peer {peer}: get_peer_counter last={r}, model last={model_last}"));
        }
    }
}

async fn do_validate(w: &World, op: &Value, idx: usize) {
    let peer = op["peer"].as_u64().unwrap_or(0);
    let kind = op["kind"].as_str().unwrap_or("next");
    let hash = op["hash"].as_u64().unwrap_or(0);
    // ---- invocation: resolve against the model, predict, apply
    let (seq, last_before, predicted) = {
        let mut m = w.model.borrow_mut();
        let last = m.last.get(&peer).copied().unwrap_or(0);
        let seq = resolve(kind, last, op["rand"].as_u64().unwrap_or(0));
        let predicted = seq == last.wrapping_add(1) && last != u64::MAX;
        if predicted {
            m.last.insert(peer, seq);
            m.accepted.entry(peer).or_default().push(seq);
        }
        (seq, last, predicted)
    };
    ev!("#{idx} validate peer={peer} seq={seq} kind={kind} (last {last_before})");
    // main and twin futures are first-polled back to back inside one task poll, so
    // both lock sections run at this invocation, in invocation order
    let (fut, twin_res) = {
        let g = w.sys.borrow();
        let sys = g.as_ref().expect("sys");
        let tg = w.twins.borrow();
        let t = tg.get(&peer).expect("twin");
        let id = uid(peer);
        futures::join!(sys.validate_sequence(&id, seq, mhash(hash)), t.validate_sequence(&id, seq, mhash(hash)))
    };
    let got = match fut {
        Ok(r) => r,
        Err(e) => {
            w.ctx.borrow_mut().violate("C12.error.unexpected", "validate", format!("validate_sequence returned error {e}"));
            return;
        }
    };
    ev!("#{idx} -> {}", verdict_name(&got));
    {
        let mut c = w.ctx.borrow_mut();
        c.ops += 1;
        if matches!(got, R::Valid) { c.probe("accepted") } else { c.probe("rejected") }
    }
    judge(w, "validate", peer, seq, predicted, last_before, &got);
    let tv = twin_res;
    if let Ok(tv) = tv {
        if tv != got {
            w.ctx.borrow_mut().violate("C12.independence.verdict_differs_alone", "validate", format!("peer {peer} seq {seq}: {} with other peers present, {} alone", verdict_name(&got), verdict_name(&tv)));
        }
    }
    check_state(w, peer).await;
}

async fn do_batch(w: &World, op: &Value, idx: usize) {
    let now = verif_hooks::unix_secs();
    let mut reqs = Vec::new();
    let mut expect: Vec<(u64, u64, bool, u64)> = Vec::new(); // peer, seq, predicted, last_before
    {
        let mut m = w.model.borrow_mut();
        for it in op["items"].as_array().cloned().unwrap_or_default() {
            let peer = it["peer"].as_u64().unwrap_or(0);
            let last = m.last.get(&peer).copied().unwrap_or(0);
            let seq = resolve(it["kind"].as_str().unwrap_or("next"), last, it["rand"].as_u64().unwrap_or(0));
            let off = it["ts_off"].as_i64().unwrap_or(0);
            let ts = (now as i64 + off).max(0) as u64;
            let in_window = ts <= now + 60 && ts >= now.saturating_sub(3600);
            let predicted = in_window && seq == last.wrapping_add(1) && last != u64::MAX;
            if predicted {
                m.last.insert(peer, seq);
                m.accepted.entry(peer).or_default().push(seq);
            }
            expect.push((peer, seq, predicted, last));
            reqs.push((peer, seq, it["hash"].as_u64().unwrap_or(0), ts));
        }
    }
    ev!("#{idx} batch {:?}", reqs);
    let mk = |v: &[(u64, u64, u64, u64)]| -> Vec<BatchUpdateRequest> {
        v.iter().map(|(p, s, h, ts)| BatchUpdateRequest { user_id: uid(*p), sequence: *s, message_hash: mhash(*h), timestamp: *ts }).collect()
    };
    let mut peers_in: Vec<u64> = reqs.iter().map(|x| x.0).collect();
    peers_in.sort();
    peers_in.dedup();
    let (res, twin_results) = {
        let g = w.sys.borrow();
        let sys = g.as_ref().expect("sys");
        let tg = w.twins.borrow();
        let twin_futs: Vec<_> = peers_in
            .iter()
            .map(|p| {
                let sub: Vec<(u64, u64, u64, u64)> = reqs.iter().filter(|x| x.0 == *p).cloned().collect();
                tg.get(p).expect("twin").batch_update(mk(&sub))
            })
            .collect();
        futures::join!(sys.batch_update(mk(&reqs)), futures::future::join_all(twin_futs))
    };
    let Ok(res) = res else {
        w.ctx.borrow_mut().violate("C12.error.unexpected", "batch", "batch_update returned an error");
        return;
    };
    if res.len() != reqs.len() {
        w.ctx.borrow_mut().violate("C12.batch.result_count", "", format!("{} results for {} requests", res.len(), reqs.len()));
        return;
    }
    for (i, r) in res.iter().enumerate() {
        let (peer, seq, predicted, last_before) = expect[i];
        ev!("#{idx}.{i} -> {} applied={}", verdict_name(&r.result), r.applied);
        {
            let mut c = w.ctx.borrow_mut();
            c.ops += 1;
            if r.applied { c.probe("accepted") } else { c.probe("rejected") }
        }
        if r.applied != matches!(r.result, R::Valid) {
            w.ctx.borrow_mut().violate("C12.batch.applied_flag_inconsistent", "", format!("item {i}: applied={} result={}", r.applied, verdict_name(&r.result)));
        }
        judge(w, "batch", peer, seq, predicted, last_before, &r.result);
    }
    // twins: each peer's sub-batch alone
    for (p, tv) in peers_in.iter().zip(twin_results.into_iter()) {
        let p = *p;
        let main_verdicts: Vec<String> = res.iter().zip(reqs.iter()).filter(|(_, q)| q.0 == p).map(|(r, _)| verdict_name(&r.result)).collect();
        if let Ok(tv) = tv {
            let tvs: Vec<String> = tv.iter().map(|r| verdict_name(&r.result)).collect();
            if tvs != main_verdicts {
                w.ctx.borrow_mut().violate("C12.independence.verdict_differs_alone", "batch", format!("peer {p}: {main_verdicts:?} in the mixed batch, {tvs:?} alone"));
            }
        }
        check_state(w, p).await;
    }
}

async fn wait_sync(sys: &mut MonotonicCounterSystem) -> bool {
    let before = sys.get_stats().await.persistence_ops;
    if sys.start_sync_task().await.is_err() {
        return false;
    }
    let mut ok = false;
    for _ in 0..200 {
        tokio::time::sleep(Duration::from_millis(1)).await;
        if sys.get_stats().await.persistence_ops > before {
            ok = true;
            break;
        }
    }
    sys.stop_sync_task().await;
    ok
}

/// Sync, examine crash images of the write, then continue on a store reloaded from the file.
async fn do_reload(w: &World, op: &Value, idx: usize, peers: u64) {
    let n_images = op["images"].as_u64().unwrap_or(8) as usize;
    let path = w.dir.join("counters.bin");
    let snapshot: Model = w.model.borrow().clone(); // what the sync persists (no await before the read lock is taken in the sync task's first poll… see below)
    let mut sys = w.sys.borrow_mut().take().expect("sys");
    let synced = if w.bg_sync_ms > 0 {
        // The periodic task has been running all along. Submitters are held off by the gate, so after two
        // full periods everything accepted so far has had a sync tick of its own: it must be in the file.
        tokio::time::sleep(Duration::from_millis(2 * w.bg_sync_ms + 5)).await;
        sys.stop_sync_task().await;
        w.ctx.borrow_mut().probe("reload_after_periodic_sync");
        true
    } else {
        wait_sync(&mut sys).await
    };
    // other tasks may have been accepted while we waited; what was persisted is between
    // `snapshot` and the model now. The reload oracle only uses lower bounds from `snapshot`.
    if !synced {
        w.ctx.borrow_mut().harness_error = Some("sync did not complete".into());
        *w.sys.borrow_mut() = Some(sys);
        return;
    }
    let bytes = std::fs::read(&path).unwrap_or_default();
    ev!("#{idx} reload: file {} bytes, peers {}", bytes.len(), snapshot.last.len());
    w.ctx.borrow_mut().probe("reload");
    // ---- crash images of the non-atomic write: old file, empty, prefixes
    let mut images: Vec<(String, Vec<u8>)> = vec![("empty".into(), vec![])];
    if let Some(old) = w.old_file.borrow().clone() {
        images.push(("old".into(), old));
    }
    let len = bytes.len();
    if len > 0 {
        let step = (len / n_images.max(1)).max(1);
        let mut cut = 1;
        while cut < len {
            images.push((format!("prefix{cut}"), bytes[..cut].to_vec()));
            cut += step;
        }
        images.push((format!("prefix{}", len - 1), bytes[..len - 1].to_vec()));
    }
    let mut n = *w.reloads.borrow();
    for (name, img) in images {
        n += 1;
        let p = w.dir.join(format!("img-{n}.bin"));
        let _ = std::fs::write(&p, &img);
        let loaded = MonotonicCounterSystem::new(p.clone()).await;
        w.ctx.borrow_mut().probe("crash_image");
        let Ok(s2) = loaded else { continue };
        w.ctx.borrow_mut().probe("crash_image_loaded");
        // what this image persisted: for prefixes of the new file and the new file, the
        // snapshot; for the old file, the previous snapshot is not tracked — only internal
        // consistency is demanded there (a loaded counter never re-accepts its own last).
        for peer in 0..peers {
            let c = s2.get_peer_counter(&uid(peer)).await;
            let own_last = c.map(|c| c.last_valid_sequence).unwrap_or(0);
            let persisted = if name == "old" { own_last } else { snapshot.last.get(&peer).copied().unwrap_or(0) };
            for seq in [persisted, 1u64, persisted.saturating_sub(1)] {
                if seq == 0 || seq > persisted { continue; }
                if let Ok(R::Valid) = s2.validate_sequence(&uid(peer), seq, mhash(9)).await {
                    w.ctx.borrow_mut().violate("C12.reload.reaccepts_persisted", name.split(char::is_numeric).next().unwrap_or("img").to_string(),
                        format!("image {name} ({} of {len} bytes) loaded; peer {peer} seq {seq} accepted again although {persisted} was persisted", img.len()));
                }
            }
        }
        let _ = std::fs::remove_file(&p);
    }
    *w.reloads.borrow_mut() = n;
    // ---- continue on the reloaded store; acceptances after the sync are lost by definition
    drop(sys);
    let reopened = if w.bg_sync_ms > 0 {
        match MonotonicCounterSystem::new_with_sync_interval(path.clone(), Duration::from_millis(w.bg_sync_ms)).await {
            Ok(mut s2) => { let _ = s2.start_sync_task().await; Ok(s2) }
            Err(e) => Err(e),
        }
    } else { MonotonicCounterSystem::new(path.clone()).await };
    match reopened {
        Ok(s2) => {
            // re-anchor the model on what the file holds (read through the public accessor)
            let mut m = w.model.borrow_mut();
            for peer in 0..peers {
                let l = s2.get_peer_counter(&uid(peer)).await.map(|c| c.last_valid_sequence).unwrap_or(0);
                let snap = snapshot.last.get(&peer).copied().unwrap_or(0);
                if l < snap {
                    w.ctx.borrow_mut().violate("C12.reload.lost_persisted", if w.bg_sync_ms > 0 { "periodic_sync" } else { "" }, format!("peer {peer}: reloaded last {l} < {snap} accepted before the sync {}", if w.bg_sync_ms > 0 { "task had two full periods to write it" } else { "started" }));
                }
                m.last.insert(peer, l);
            }
            *w.sys.borrow_mut() = Some(s2);
            *w.old_file.borrow_mut() = Some(bytes);
        }
        Err(e) => {
            w.ctx.borrow_mut().violate("C12.reload.complete_file_unloadable", "", format!("a completely written counters file failed to load: {e}"));
            *w.sys.borrow_mut() = Some(MonotonicCounterSystem::new(w.dir.join(format!("fresh-{n}.bin"))).await.expect("fresh"));
            w.model.borrow_mut().last.clear();
        }
    }
    // twins must follow: reload them too so that independence stays comparable
    let keys: Vec<u64> = w.twins.borrow().keys().copied().collect();
    for p in keys {
        let mut t = w.twins.borrow_mut().remove(&p).expect("twin");
        let ok = wait_sync(&mut t).await;
        drop(t);
        let tp = w.dir.join(format!("twin-{p}.bin"));
        let t2 = if ok { MonotonicCounterSystem::new(tp).await.ok() } else { None };
        match t2 {
            Some(t2) => { w.twins.borrow_mut().insert(p, t2); }
            None => { w.ctx.borrow_mut().harness_error = Some("twin reload failed".into()); return; }
        }
    }
}

fn execute(sc: &Value) -> RunReport {
    let seed = sc["seed"].as_u64().unwrap_or(0);
    let peers = sc["peers"].as_u64().unwrap_or(1).max(1);
    let tasks = sc["tasks"].as_u64().unwrap_or(1).max(1);
    let ops: Vec<Value> = sc["ops"].as_array().cloned().unwrap_or_default();
    verif_hooks::set_wall_secs(T0);
    let scratch = Scratch::new("c12");
    let rt = sim_runtime(seed);
    let local = tokio::task::LocalSet::new();
    let world = Rc::new(World {
        sys: RefCell::new(None),
        twins: RefCell::new(BTreeMap::new()),
        model: RefCell::new(Model::default()),
        ctx: RefCell::new(Ctx::new()),
        dir: scratch.path.clone(),
        reloads: RefCell::new(0),
        old_file: RefCell::new(None),
        bg_sync_ms: sc["bg_sync_ms"].as_u64().unwrap_or(0),
    });
    let w = world.clone();
    local.block_on(&rt, async move {
        let sys = if w.bg_sync_ms > 0 {
            let mut s = MonotonicCounterSystem::new_with_sync_interval(w.dir.join("counters.bin"), Duration::from_millis(w.bg_sync_ms)).await.expect("new");
            s.start_sync_task().await.expect("sync task");
            s
        } else { MonotonicCounterSystem::new(w.dir.join("counters.bin")).await.expect("new") };
        *w.sys.borrow_mut() = Some(sys);
        for p in 0..peers {
            let t = MonotonicCounterSystem::new(w.dir.join(format!("twin-{p}.bin"))).await.expect("twin");
            w.twins.borrow_mut().insert(p, t);
        }
        // A reload swaps the store: operations are serialised around it with a gate.
        let gate = Rc::new(tokio::sync::RwLock::new(()));
        let mut handles = Vec::new();
        for t in 0..tasks {
            let mine: Vec<(usize, Value)> = ops.iter().cloned().enumerate().filter(|(_, o)| o["task"].as_u64().unwrap_or(0) % tasks == t).collect();
            let w = w.clone();
            let gate = gate.clone();
            handles.push(tokio::task::spawn_local(async move {
                for (idx, op) in mine {
                    let d = op["delay_ms"].as_u64().unwrap_or(0);
                    if d > 0 {
                        tokio::time::sleep(Duration::from_millis(d)).await;
                        // the store's wall clock follows simulated time at second granularity only via `clock` ops
                    } else {
                        tokio::task::yield_now().await;
                    }
                    match op["op"].as_str().unwrap_or("") {
                        "validate" => { let _g = gate.read().await; do_validate(&w, &op, idx).await }
                        "batch" => { let _g = gate.read().await; do_batch(&w, &op, idx).await }
                        "cleanup" => {
                            let _g = gate.read().await;
                            ev!("#{idx} cleanup");
                            let g = w.sys.borrow();
                            let _ = g.as_ref().expect("sys").cleanup_old_sequences().await;
                            for t in w.twins.borrow().values() { let _ = t.cleanup_old_sequences().await; }
                        }
                        "clock" => {
                            let s = op["secs"].as_i64().unwrap_or(0);
                            let now = verif_hooks::unix_secs();
                            let new = (now as i64 + s).max(0) as u64;
                            ev!("#{idx} clock {s:+} -> {new}");
                            verif_hooks::set_wall_secs(new);
                            w.ctx.borrow_mut().sim_ms += (s.unsigned_abs()) * 1000;
                        }
                        "reload" => { let _g = gate.write().await; do_reload(&w, &op, idx, peers).await }
                        _ => {}
                    }
                }
            }));
        }
        for h in handles {
            if let Err(e) = h.await {
                if e.is_panic() {
                    w.ctx.borrow_mut().violate("C12.panic", "", "a submitter task panicked inside the counter store");
                }
            }
        }
        // final: acceptances per peer read 1,2,3,… (from the model, which every verdict was checked against)
        for (p, acc) in w.model.borrow().accepted.iter() {
            let _ = (p, acc);
        }
        *w.sys.borrow_mut() = None;
        w.twins.borrow_mut().clear();
    });
    drop(rt);
    verif_hooks::clear_wall();
    let world = Rc::try_unwrap(world).ok().expect("world");
    let mut ctx = world.ctx.into_inner();
    let acc = ctx.probes.get("accepted").copied().unwrap_or(0);
    let rej = ctx.probes.get("rejected").copied().unwrap_or(0);
    ctx.nontrivial = acc > 0 && rej > 0;
    for k in ["accepted", "rejected", "reload", "reload_after_periodic_sync", "crash_image", "crash_image_loaded"] {
        ctx.probes.entry(k.to_string()).or_insert(0);
    }
    drop(scratch);
    ctx.finish()
}
