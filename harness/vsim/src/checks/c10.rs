//! C10 — global trust is a well-formed distribution that moves with reported behaviour.
//!
//! SIM-COMP "trust world": reporter / statistics / administrator / provider /
//! reader actors are tasks on the deterministic runtime (simulated clock), plus
//! the engine's own background recomputation. Three engines per world: the
//! original, a twin fed the identical schedule, and a counterfactual twin that
//! receives exactly one extra report.

use crate::ev;
use crate::simkit::shrink::drop_chunks;
use crate::simkit::{CheckDef, Ctx, Rng, RunReport, Tier, sim_runtime};
use saorsa_core::adaptive::{EigenTrustEngine, NodeStatisticsUpdate, TrustProvider};
use saorsa_core::peer_record::UserId;
use serde_json::{Value, json};
use std::collections::{BTreeMap, BTreeSet, HashSet};
use std::sync::Arc;
use std::time::Duration;

pub static DEF: CheckDef = CheckDef {
    id: "C10",
    level: "exploration",
    technique: "deterministic component simulation of the trust engine: actor tasks on a seeded runtime with simulated clock and background recomputation; oracles = distribution invariants after every recomputation, twin-engine equality, one-extra-report counterfactual twin",
    runs: (6000, 200000),
    generate,
    execute,
    shrink,
    rule: "each run = one trust world (2..40 identities quick, up to 600 thorough; 0..4 anchors; 5..120 operations over 2..5 actor tasks with seeded delays; background recompute on/off) executed on three engines (original, twin, counterfactual with one extra report of a drawn kind at a drawn position); non-trivial = at least one recomputation over >= 2 known nodes with at least one report; distinct = distinct hash of the linearised operation log and the rounded score vectors",
    real_components: &["EigenTrustEngine (update_local_trust, update_node_stats, add/remove_pre_trusted, TrustProvider::{get_trust,update_trust,remove_node,get_global_trust}, compute_global_trust, start_background_updates)"],
    stubbed_components: &[],
    assumptions: &["std::time::Instant inside the engine is real: it only feeds a decay factor applied uniformly before normalisation, so it cannot change a score", "HashMap summation order is seeded; equality oracles use 1e-9 tolerance"],
};

const STAT_KINDS: &[&str] = &[
    "Uptime", "Correct", "Failed", "Unavail", "Corrupt", "Proto", "Storage", "Bandwidth", "Compute",
];
const CF_KINDS: &[&str] = &[
    "stats_success", "stats_failure", "stats_unavail", "stats_corrupt", "stats_proto", "local_success", "local_failure",
];

fn generate(seed: u64, tier: Tier) -> Value {
    let mut r = Rng::new(seed);
    let n = match tier {
        Tier::Quick => if r.chance(1, 12) { r.range(101, 180) } else { r.range(2, 40) },
        Tier::Thorough => {
            if r.chance(1, 10) { r.range(100, 600) } else { r.range(2, 60) }
        }
    };
    let n_anchor = if r.chance(1, 4) { 0 } else { r.range(1, 4.min(n)) };
    let anchors: Vec<u64> = (0..n_anchor).map(|_| r.below(n)).collect();
    // one world in five is single-tasked without background recomputation: there the order of
    // reports is fixed, so an engine that skips the intermediate recomputations sees the same history
    let single = r.chance(1, 5);
    let tasks = if single { 1 } else { r.range(2, 5) };
    let nops = if r.chance(1, 20) { 0 } else { r.range(5, if n > 100 { 400 } else { 120 }) };
    let mut ops = Vec::new();
    for _ in 0..nops {
        let k = r.below(100);
        let task = r.below(tasks);
        let delay = *r.pick(&[0u64, 0, 0, 1, 10, 1000, 60_000, 299_999, 300_000]);
        let mut op = if k < 35 {
            let from = r.below(n);
            let to = if r.chance(1, 10) { from } else { r.below(n) };
            json!({"op": "local", "from": from, "to": to, "ok": r.chance(3, 4)})
        } else if k < 65 {
            let kind = *r.pick(STAT_KINDS);
            let v = *r.pick(&[0u64, 1, 3, 1000, 86_400, 1 << 20, 1 << 40]);
            json!({"op": "stats", "node": r.below(n), "kind": kind, "v": v})
        } else if k < 70 {
            json!({"op": "add_anchor", "node": r.below(n)})
        } else if k < 73 {
            json!({"op": "rm_anchor", "node": r.below(n)})
        } else if k < 78 {
            json!({"op": "tp_remove", "node": r.below(n)})
        } else if k < 86 {
            json!({"op": "tp_update", "from": r.below(n), "to": r.below(n), "ok": r.chance(3, 4)})
        } else {
            json!({"op": "compute"})
        };
        op["task"] = json!(task);
        op["delay_ms"] = json!(delay);
        ops.push(op);
    }
    // pairwise reports get half of the draws (they act through the iteration, where the
    // subtle interactions live), the five statistics kinds share the rest
    let cf_kind = if r.chance(1, 2) { *r.pick(&["local_success", "local_failure"]) } else { *r.pick(CF_KINDS) };
    // bias the subject towards nodes that are mentioned, sometimes a fresh one
    let mut mentioned: Vec<u64> = Vec::new();
    for o in &ops {
        for k in ["from", "to", "node"] {
            if let Some(v) = o[k].as_u64() {
                mentioned.push(v);
            }
        }
    }
    let pick_id = |r: &mut Rng| if !mentioned.is_empty() && r.chance(9, 10) { *r.pick(&mentioned) } else { r.below(n) };
    let cf_node = pick_id(&mut r);
    // one counterfactual in five is a self-rating (the subject reports on itself)
    let cf_from = if r.chance(1, 3) { cf_node } else { pick_id(&mut r) };
    let cf = json!({"at": r.below(nops + 1), "node": cf_node, "kind": cf_kind, "from": cf_from});
    json!({"property": "C10", "seed": seed, "n": n, "anchors": anchors, "tasks": tasks,
           "background": !single && r.chance(1, 2), "single": single, "ops": ops, "cf": cf})
}

fn shrink(sc: &Value) -> Vec<Value> {
    let mut out = Vec::new();
    // dropping an op before cf.at must shift cf.at to keep the same insertion point
    if let Some(arr) = sc["ops"].as_array() {
        let at = sc["cf"]["at"].as_u64().unwrap_or(0) as usize;
        for c in drop_chunks(sc, "ops") {
            let new_len = c["ops"].as_array().map(|a| a.len()).unwrap_or(0);
            let removed = arr.len() - new_len;
            // figure out where the removed chunk was: compare prefixes
            let newa = c["ops"].as_array().unwrap();
            let mut start = 0;
            while start < new_len && newa[start] == arr[start] {
                start += 1;
            }
            let mut c2 = c.clone();
            let new_at = if at <= start { at } else if at >= start + removed { at - removed } else { start };
            c2["cf"]["at"] = json!(new_at);
            out.push(c2);
        }
    }
    if sc["background"].as_bool() == Some(true) {
        let mut c = sc.clone();
        c["background"] = json!(false);
        out.push(c);
    }
    out.extend(drop_chunks(sc, "anchors"));
    out
}

pub fn nid(i: u64) -> UserId {
    let mut h = [0u8; 32];
    h[..8].copy_from_slice(&i.to_be_bytes());
    h[31] = 0xA5;
    UserId::from_bytes(h)
}

fn stat_update(kind: &str, v: u64) -> NodeStatisticsUpdate {
    match kind {
        "Uptime" => NodeStatisticsUpdate::Uptime(v),
        "Correct" => NodeStatisticsUpdate::CorrectResponse,
        "Failed" => NodeStatisticsUpdate::FailedResponse,
        "Unavail" => NodeStatisticsUpdate::DataUnavailable,
        "Corrupt" => NodeStatisticsUpdate::CorruptedData,
        "Proto" => NodeStatisticsUpdate::ProtocolViolation,
        "Storage" => NodeStatisticsUpdate::StorageContributed(v),
        "Bandwidth" => NodeStatisticsUpdate::BandwidthContributed(v),
        _ => NodeStatisticsUpdate::ComputeContributed(v),
    }
}

#[derive(Default)]
pub struct WorldOut {
    pub final_map: BTreeMap<u64, f64>,
    pub computes: u64,
    pub malformed: Vec<(String, String)>,
    pub max_nodes: usize,
    pub reports: u64,
    /// pre-trusted nodes the engine holds at the final recomputation (initial set, then add/remove as applied)
    pub anchors_at_end: BTreeSet<u64>,
}

fn check_map(
    engine: &EigenTrustEngine,
    map: &std::collections::HashMap<UserId, f64>,
    n: u64,
    out: &mut WorldOut,
    log: bool,
) {
    out.computes += 1;
    out.max_nodes = out.max_nodes.max(map.len());
    let mut sum = 0.0;
    let mut all_zero = true;
    let mut sorted: Vec<(u64, f64)> = Vec::new();
    for (id, v) in map {
        let i = u64::from_be_bytes(id.hash[..8].try_into().unwrap());
        sorted.push((i, *v));
        if !v.is_finite() {
            out.malformed.push(("C10.score.not_finite".into(), format!("node {i} score {v}")));
        } else if *v < -1e-12 || *v > 1.0 + 1e-9 {
            out.malformed.push(("C10.score.out_of_range".into(), format!("node {i} score {v}")));
        }
        if *v != 0.0 {
            all_zero = false;
        }
        sum += *v;
        let q = engine.get_trust(id);
        if !((q - *v).abs() <= 1e-12) {
            out.malformed.push((
                "C10.query.differs_from_last_computed".into(),
                format!("node {i}: get_trust={q} computed={v}"),
            ));
        }
    }
    if !map.is_empty() && !all_zero && !((sum - 1.0).abs() <= 1e-9) {
        out.malformed.push(("C10.sum.not_one".into(), format!("sum={sum} over {} nodes", map.len())));
    }
    // an identity never mentioned anywhere is unknown => 0
    let unknown = nid(n + 1_000_000);
    let q = engine.get_trust(&unknown);
    if q != 0.0 {
        out.malformed.push(("C10.query.unknown_nonzero".into(), format!("get_trust(unknown)={q}")));
    }
    if log {
        sorted.sort_by_key(|x| x.0);
        let s: Vec<String> = sorted.iter().take(24).map(|(i, v)| format!("{i}:{:.6}", v)).collect();
        ev!("compute nodes={} sum={:.6} [{}]", map.len(), sum, s.join(" "));
    }
}

async fn apply(engine: &Arc<EigenTrustEngine>, op: &Value, n: u64, out: &std::cell::RefCell<WorldOut>, log: bool) {
    let g = |k: &str| op[k].as_u64().unwrap_or(0);
    match op["op"].as_str().unwrap_or("") {
        "local" => {
            engine.update_local_trust(&nid(g("from")), &nid(g("to")), op["ok"].as_bool().unwrap_or(true)).await;
            out.borrow_mut().reports += 1;
        }
        "stats" => {
            engine.update_node_stats(&nid(g("node")), stat_update(op["kind"].as_str().unwrap_or(""), g("v"))).await;
            out.borrow_mut().reports += 1;
        }
        "add_anchor" => { engine.add_pre_trusted(nid(g("node"))).await; out.borrow_mut().anchors_at_end.insert(g("node")); }
        "rm_anchor" => { engine.remove_pre_trusted(&nid(g("node"))).await; out.borrow_mut().anchors_at_end.remove(&g("node")); }
        "tp_remove" => TrustProvider::remove_node(&**engine, &nid(g("node"))),
        "tp_update" => {
            TrustProvider::update_trust(&**engine, &nid(g("from")), &nid(g("to")), op["ok"].as_bool().unwrap_or(true));
            out.borrow_mut().reports += 1;
        }
        "compute" => {
            let map = engine.compute_global_trust().await;
            // no await between the computation's return and the queries below
            check_map(engine, &map, n, &mut out.borrow_mut(), log);
        }
        _ => {}
    }
}

/// Run one engine through the scenario (optionally with one extra op inserted at `extra.0`).
pub fn run_world(sc: &Value, extra: Option<(usize, Value)>, log: bool) -> WorldOut {
    run_world_opt(sc, extra, log, false)
}

/// `skip_computes`: intermediate `compute` operations keep their place in the schedule (same
/// delays and yields) but do not call the engine; only the final recomputation happens.
pub fn run_world_opt(sc: &Value, extra: Option<(usize, Value)>, log: bool, skip_computes: bool) -> WorldOut {
    let seed = sc["seed"].as_u64().unwrap_or(0);
    let n = sc["n"].as_u64().unwrap_or(2);
    let tasks = sc["tasks"].as_u64().unwrap_or(1).max(1);
    let mut ops: Vec<Value> = sc["ops"].as_array().cloned().unwrap_or_default();
    if let Some((at, op)) = extra {
        let at = at.min(ops.len());
        let mut op = op;
        // same task as the neighbour so the insertion point is well defined
        let task = if at > 0 { ops[at - 1]["task"].clone() } else if !ops.is_empty() { ops[0]["task"].clone() } else { json!(0) };
        op["task"] = task;
        op["delay_ms"] = json!(0);
        ops.insert(at, op);
    }
    let anchors: HashSet<UserId> = sc["anchors"].as_array().map(|a| a.iter().map(|v| nid(v.as_u64().unwrap_or(0))).collect()).unwrap_or_default();
    let background = sc["background"].as_bool().unwrap_or(false);
    let rt = sim_runtime(seed);
    let out = std::rc::Rc::new(std::cell::RefCell::new(WorldOut::default()));
    out.borrow_mut().anchors_at_end = sc["anchors"].as_array().map(|a| a.iter().map(|v| v.as_u64().unwrap_or(0)).collect()).unwrap_or_default();
    let out2 = out.clone();
    let local = tokio::task::LocalSet::new();
    local.block_on(&rt, async move {
        let engine = Arc::new(EigenTrustEngine::new(anchors));
        if background {
            engine.clone().start_background_updates();
        }
        let mut handles = Vec::new();
        for t in 0..tasks {
            let mine: Vec<(usize, Value)> = ops.iter().cloned().enumerate().filter(|(_, o)| o["task"].as_u64().unwrap_or(0) % tasks == t).collect();
            let engine = engine.clone();
            let out = out2.clone();
            handles.push(tokio::task::spawn_local(async move {
                for (idx, op) in mine {
                    let d = op["delay_ms"].as_u64().unwrap_or(0);
                    if d > 0 {
                        tokio::time::sleep(Duration::from_millis(d)).await;
                    } else {
                        tokio::task::yield_now().await;
                    }
                    if log {
                        ev!("op {idx} t{t} {}", op["op"].as_str().unwrap_or("?"));
                    }
                    if skip_computes && op["op"] == "compute" { continue; }
                    apply(&engine, &op, n, &out, log).await;
                }
            }));
        }
        for h in handles {
            let _ = h.await;
        }
        // let provider-spawned tasks settle, then the final recomputation
        for _ in 0..4 {
            tokio::task::yield_now().await;
        }
        let map = engine.compute_global_trust().await;
        let mut o = out2.borrow_mut();
        check_map(&engine, &map, n, &mut o, log);
        for (id, v) in &map {
            o.final_map.insert(u64::from_be_bytes(id.hash[..8].try_into().unwrap()), *v);
        }
        // recomputing with no report in between must not move any score (beyond the engine's precision)
        let again = engine.compute_global_trust().await;
        if again.len() != map.len() {
            o.malformed.push(("C10.recompute.moves_scores".into(), format!("node set {} -> {} with no report in between", map.len(), again.len())));
        } else {
            for (id, v) in &map {
                let w = again.get(id).copied().unwrap_or(f64::NAN);
                if !((v - w).abs() <= 1e-3 + 0.01 * v.abs().max(w.abs())) {
                    let i = u64::from_be_bytes(id.hash[..8].try_into().unwrap());
                    o.malformed.push(("C10.recompute.moves_scores".into(), format!("node {i}: {v} -> {w} on an immediate second computation with no report in between ({} nodes)", map.len())));
                    break;
                }
            }
        }
    });
    drop(rt);
    std::rc::Rc::try_unwrap(out).ok().map(|c| c.into_inner()).unwrap_or_default()
}

fn cf_op(cf: &Value) -> Value {
    let node = cf["node"].as_u64().unwrap_or(0);
    let from = cf["from"].as_u64().unwrap_or(0);
    match cf["kind"].as_str().unwrap_or("") {
        "stats_success" => json!({"op": "stats", "node": node, "kind": "Correct", "v": 0}),
        "stats_failure" => json!({"op": "stats", "node": node, "kind": "Failed", "v": 0}),
        "stats_unavail" => json!({"op": "stats", "node": node, "kind": "Unavail", "v": 0}),
        "stats_corrupt" => json!({"op": "stats", "node": node, "kind": "Corrupt", "v": 0}),
        "stats_proto" => json!({"op": "stats", "node": node, "kind": "Proto", "v": 0}),
        "local_success" => json!({"op": "local", "from": from, "to": node, "ok": true}),
        _ => json!({"op": "local", "from": from, "to": node, "ok": false}),
    }
}

fn execute(sc: &Value) -> RunReport {
    let mut ctx = Ctx::new();
    let a = run_world(sc, None, true);
    ctx.ops = a.reports + a.computes;
    ctx.sim_ms = sc["ops"].as_array().map(|o| o.iter().map(|x| x["delay_ms"].as_u64().unwrap_or(0)).sum()).unwrap_or(0);
    if a.max_nodes >= 2 && a.reports >= 1 {
        ctx.nontrivial = true;
    }
    if a.max_nodes > 100 {
        ctx.probe("more_than_100_nodes");
    }
    if a.final_map.values().all(|v| *v == 0.0) && !a.final_map.is_empty() {
        ctx.probe("all_zero_distribution");
    }
    if a.final_map.is_empty() {
        ctx.probe("empty_engine");
    }
    for (class, detail) in &a.malformed {
        ctx.violate(class, "", detail.clone());
    }
    // twin
    let b = run_world(sc, None, false);
    let mut worst = 0.0f64;
    if a.final_map.len() != b.final_map.len() {
        ctx.violate("C10.twin.differs", "node_set", format!("{} vs {} nodes", a.final_map.len(), b.final_map.len()));
    } else {
        for (k, v) in &a.final_map {
            let w = b.final_map.get(k).copied().unwrap_or(f64::NAN);
            let d = (v - w).abs();
            // Twin engines iterate their hash maps in different orders, so their
            // floating-point sums differ in the last bits and the engine's own
            // stopping rule (L1 change < 1e-4) can fire one round apart: scores are
            // equal only to the engine's precision.
            if !(d <= 1e-3 + 0.01 * v.abs().max(w.abs())) {
                worst = worst.max(d);
                ctx.violate("C10.twin.differs", "score", format!("node {k}: {v} vs {w} for identical histories"));
            }
        }
    }
    // history-only twin: same reports in the same order, no intermediate recomputation
    if sc["single"].as_bool() == Some(true) {
        let h = run_world_opt(sc, None, false, true);
        ctx.probe("history_only_twin");
        if h.final_map.len() != a.final_map.len() {
            ctx.violate("C10.history.scores_depend_on_recomputations", "node_set", format!("{} vs {} nodes", a.final_map.len(), h.final_map.len()));
        } else {
            for (k, v) in &a.final_map {
                let w = h.final_map.get(k).copied().unwrap_or(f64::NAN);
                if !((v - w).abs() <= 1e-3 + 0.01 * v.abs().max(w.abs())) {
                    ctx.violate("C10.history.scores_depend_on_recomputations", if a.max_nodes > 100 { "over_100_nodes" } else { "score" }, format!("node {k}: {v} after {} computations vs {w} when the same reports are followed by one computation ({} nodes)", a.computes, a.max_nodes));
                    break;
                }
            }
        }
    }
    // counterfactual
    let cf = &sc["cf"];
    let kind = cf["kind"].as_str().unwrap_or("").to_string();
    let p = cf["node"].as_u64().unwrap_or(0);
    let at = cf["at"].as_u64().unwrap_or(0) as usize;
    let c = run_world(sc, Some((at, cf_op(cf))), false);
    let base = a.final_map.get(&p).copied();
    let with = c.final_map.get(&p).copied();
    let had_stats_before = sc["ops"].as_array().map(|o| o.iter().any(|x| x["op"] == "stats" && x["node"].as_u64() == Some(p))).unwrap_or(false);
    let known_before = base.is_some();
    // the label describes the engine at the final recomputation, not the scenario's vocabulary
    let anchored = !a.anchors_at_end.is_empty();
    let shape = format!(
        "{}:{}:{}",
        kind,
        if !known_before { "unknown_before" } else if had_stats_before { "had_stats" } else { "no_stats_before" },
        if anchored { "anchors" } else { "no_anchors" }
    );
    ev!("cf kind={kind} node={p} at={at} base={:?} with={:?}", base.map(|v| (v * 1e9).round() / 1e9), with.map(|v| (v * 1e9).round() / 1e9));
    let b0 = base.unwrap_or(0.0);
    let w0 = with.unwrap_or(0.0);
    let success = kind.ends_with("success");
    // Statistics reports act on the post-iteration factor, where monotonicity is
    // exact: tolerance 1e-9. Pairwise (local) reports act through the power
    // iteration, which the engine itself stops at an L1 change of 1e-4 (and after
    // 7 / 4 rounds for n > 100 / 500): its scores are only defined to that
    // precision, so for those the oracle demands monotonicity beyond the
    // engine's own precision only, and only for n <= 100.
    let local_kind = kind.starts_with("local_");
    let from = cf["from"].as_u64().unwrap_or(0);
    // Population must be the same in both histories: a report that makes a new
    // identity known (the subject or the reporter) changes the number of nodes
    // sharing the unit mass, and a share may shrink for that reason alone. The
    // comparison is judged only when the subject already has a computed score and
    // (for pairwise reports) the reporter is already known. One exception is kept:
    // a *failure* report about a never-seen, non-anchor peer must not create trust.
    let p_ever_anchor = sc["anchors"].as_array().map(|a| a.iter().any(|x| x.as_u64() == Some(p))).unwrap_or(false)
        || sc["ops"].as_array().map(|o| o.iter().any(|x| x["op"] == "add_anchor" && x["node"].as_u64() == Some(p))).unwrap_or(false);
    if !known_before {
        if success || p_ever_anchor {
            ev!("cf not judged: subject has no computed score in the base history");
            return ctx.finish();
        }
    } else if local_kind && !a.final_map.contains_key(&from) {
        ev!("cf not judged: reporter unknown in the base history");
        return ctx.finish();
    }
    if local_kind && a.max_nodes > 100 {
        ev!("cf skipped: local report in a truncated-iteration world");
        return ctx.finish();
    }
    let tol: f64 = if local_kind { 2e-3 + 0.02 * b0.max(w0) } else { 1e-9 };
    if success && w0 < b0 - tol {
        ctx.violate("C10.monotone.success_lowers", shape.clone(), format!("one more success ({kind}) for node {p} at position {at} lowered its score {b0} -> {w0}"));
    }
    if !success && w0 > b0 + tol {
        ctx.violate("C10.monotone.failure_raises", shape.clone(), format!("one more failure ({kind}) for node {p} at position {at} raised its score {b0} -> {w0}"));
    }
    // severe variants cost at least as much as a plain failure
    if kind == "stats_corrupt" || kind == "stats_proto" {
        let mut plain = cf.clone();
        plain["kind"] = json!("stats_failure");
        let d = run_world(sc, Some((at, cf_op(&plain))), false);
        let pl = d.final_map.get(&p).copied().unwrap_or(0.0);
        ev!("cf severe={w0:.9} plain={pl:.9}");
        if w0 > pl + tol {
            ctx.violate("C10.monotone.severe_cheaper_than_plain", shape, format!("{kind} left node {p} at {w0}, a plain failure at {pl}"));
        }
    }
    for (class, detail) in c.malformed.iter() {
        ctx.violate(class, "", detail.clone());
    }
    let _ = worst;
    ctx.finish()
}
