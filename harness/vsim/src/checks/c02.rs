//! C02 — routing-table closest-node answers are exact, duplicate-free and capped.
//!
//! SIM-COMP part: a real `DhtCoreEngine` driven by 2..4 client tasks drawing
//! join / add / failure / evict / find_nodes / handle_request(FindNode|FindValue).
//! Ground truth for every answer is the table content read through the accessor
//! at that instant; the table itself is checked for duplicates and the local id.
//! (The reply monitor over running nodes lives in the network simulation.)

use crate::ev;
use crate::simkit::shrink::drop_chunks;
use crate::simkit::{CheckDef, Ctx, Rng, RunReport, Tier, sim_runtime};
use saorsa_core::dht::core_engine::{DhtCoreEngine, DhtKey, DhtRequestWrapper, NodeCapacity, NodeId, NodeInfo};
use saorsa_core::dht::network_integration::{DhtMessage, DhtResponse};
use saorsa_core::dht::routing_maintenance::EvictionReason;
use serde_json::{Value, json};
use std::cell::RefCell;
use std::collections::BTreeSet;
use std::rc::Rc;
use std::time::{Duration, SystemTime};

pub static DEF: CheckDef = CheckDef {
    id: "C02",
    level: "exploration",
    technique: "deterministic component simulation of the routing table: seeded client tasks (join/add/fail/evict/lookup/served find-node and find-value requests) on the real DhtCoreEngine, every answer compared with the exact closest-set computed from the table content read at that instant; plus a reply monitor inside the multi-node network simulation",
    runs: (2500, 200000),
    generate,
    execute,
    shrink,
    rule: "each run = local id + 10..80 operations over 2..4 tasks; ids are placed by bucket (far buckets, bucket 0 and 255 edges, up to 12 ids aimed at one bucket of capacity 8, ids differing in the last byte, repeats, the local id itself); lookups use counts 0..64 and keys random / equal to a node id / the local id / adjacent to an id; non-trivial = at least one lookup over a table holding ids in >= 3 distinct buckets; distinct = distinct hash of the operation/answer log",
    real_components: &["DhtCoreEngine (join_network, add_node, handle_node_failure, evict_node, find_nodes, handle_request)", "KademliaRoutingTable / KBucket"],
    stubbed_components: &[],
    assumptions: &["addresses are deliberately unparseable here so that admission gates (C13) stay out of the way", "calls are single lock sections; tasks contribute orderings"],
};

fn generate(seed: u64, tier: Tier) -> Value {
    let mut r = Rng::new(seed);
    let local = r.bytes(32);
    let n_ops = r.range(10, if tier == Tier::Quick { 60 } else { 80 });
    let tasks = r.range(2, 4);
    // a small pool of ids described by (bucket, variant): the executor derives the bytes
    let n_ids = r.range(3, 40);
    let hot_bucket = *r.pick(&[0u64, 1, 3, 7, 128, 250, 254, 255]);
    let mut ids = Vec::new();
    for i in 0..n_ids {
        let k = r.below(100);
        let bucket = if k < 35 { hot_bucket } else if k < 50 { r.below(8) } else if k < 65 { 248 + r.below(8) } else { r.below(256) };
        let kind = if i > 0 && r.chance(1, 12) { "self" } else if i > 0 && r.chance(1, 8) { "lastbyte" } else { "bucket" };
        ids.push(json!({"bucket": bucket, "kind": kind, "salt": r.below(1 << 30), "of": r.below(i.max(1))}));
    }
    let mut ops = Vec::new();
    for _ in 0..n_ops {
        let k = r.below(100);
        let task = r.below(tasks);
        let mut op = if k < 30 {
            json!({"op": "add", "id": r.below(n_ids)})
        } else if k < 38 {
            let m = r.range(1, 4);
            json!({"op": "join", "ids": (0..m).map(|_| r.below(n_ids)).collect::<Vec<_>>()})
        } else if k < 46 {
            json!({"op": "fail", "id": r.below(n_ids)})
        } else if k < 54 {
            json!({"op": "evict", "id": r.below(n_ids)})
        } else {
            let keykind = *r.pick(&["random", "random", "node", "local", "adjacent", "hot"]);
            let count = *r.pick(&[0u64, 1, 2, 3, 5, 8, 9, 16, 20, 21, 33, 64]);
            let which = *r.pick(&["find", "find", "req_find_node", "req_find_value"]);
            json!({"op": which, "key": keykind, "key_id": r.below(n_ids), "key_salt": r.below(1 << 30), "count": count})
        };
        op["task"] = json!(task);
        ops.push(op);
    }
    json!({"property": "C02", "seed": seed, "local": hex::encode(local), "ids": ids, "ops": ops, "tasks": tasks, "hot_bucket": hot_bucket})
}

fn shrink(sc: &Value) -> Vec<Value> {
    drop_chunks(sc, "ops")
}

/// An id in bucket `b` relative to `local`: shares the first b bits, differs at bit b.
pub fn id_in_bucket(local: &[u8; 32], b: usize, salt: u64) -> [u8; 32] {
    let mut r = Rng::new(salt ^ 0x1d);
    let mut id = r.arr32();
    let b = b.min(255);
    for i in 0..b {
        let (byte, bit) = (i / 8, 7 - (i % 8));
        let lb = (local[byte] >> bit) & 1;
        id[byte] = (id[byte] & !(1 << bit)) | (lb << bit);
    }
    let (byte, bit) = (b / 8, 7 - (b % 8));
    let lb = (local[byte] >> bit) & 1;
    id[byte] = (id[byte] & !(1 << bit)) | ((lb ^ 1) << bit);
    id
}

fn xor(a: &[u8; 32], b: &[u8; 32]) -> [u8; 32] {
    let mut o = [0u8; 32];
    for i in 0..32 {
        o[i] = a[i] ^ b[i];
    }
    o
}

fn bucket_of(local: &[u8; 32], id: &[u8; 32]) -> usize {
    let d = xor(local, id);
    for i in 0..256 {
        if (d[i / 8] >> (7 - (i % 8))) & 1 == 1 {
            return i;
        }
    }
    255
}

fn node(id: [u8; 32], n: usize) -> NodeInfo {
    NodeInfo { id: NodeId::from_bytes(id), address: format!("peer-{n}"), last_seen: SystemTime::UNIX_EPOCH + Duration::from_secs(1_700_000_000), capacity: NodeCapacity::default() }
}

fn short(id: &[u8; 32]) -> String {
    hex::encode(&id[..3])
}

fn execute(sc: &Value) -> RunReport {
    let seed = sc["seed"].as_u64().unwrap_or(0);
    let mut local = [0u8; 32];
    hex::decode_to_slice(sc["local"].as_str().unwrap_or(""), &mut local).ok();
    // derive id bytes
    let mut idbytes: Vec<[u8; 32]> = Vec::new();
    for (i, d) in sc["ids"].as_array().cloned().unwrap_or_default().iter().enumerate() {
        let b = d["bucket"].as_u64().unwrap_or(0) as usize;
        let salt = d["salt"].as_u64().unwrap_or(0);
        let id = match d["kind"].as_str().unwrap_or("bucket") {
            "self" => local,
            "lastbyte" if i > 0 => {
                let mut x = idbytes[(d["of"].as_u64().unwrap_or(0) as usize) % i];
                x[31] ^= 1 + (salt % 255) as u8;
                x
            }
            _ => id_in_bucket(&local, b, salt),
        };
        idbytes.push(id);
    }
    let ops: Vec<Value> = sc["ops"].as_array().cloned().unwrap_or_default();
    let tasks = sc["tasks"].as_u64().unwrap_or(1).max(1);
    let rt = sim_runtime(seed);
    let ctx = Rc::new(RefCell::new(Ctx::new()));
    let local_set = tokio::task::LocalSet::new();
    let ctx2 = ctx.clone();
    local_set.block_on(&rt, async move {
        let engine = DhtCoreEngine::verif_new(NodeId::from_bytes(local), true).expect("engine");
        let engine = Rc::new(tokio::sync::RwLock::new(engine));
        let idbytes = Rc::new(idbytes);
        let mut handles = Vec::new();
        for t in 0..tasks {
            let mine: Vec<(usize, Value)> = ops.iter().cloned().enumerate().filter(|(_, o)| o["task"].as_u64().unwrap_or(0) % tasks == t).collect();
            let engine = engine.clone();
            let ctx = ctx2.clone();
            let ids = idbytes.clone();
            handles.push(tokio::task::spawn_local(async move {
                for (idx, op) in mine {
                    tokio::task::yield_now().await;
                    let kind = op["op"].as_str().unwrap_or("").to_string();
                    let pick = |k: &str| -> usize { (op[k].as_u64().unwrap_or(0) as usize) % ids.len().max(1) };
                    match kind.as_str() {
                        "add" => {
                            let i = pick("id");
                            let r = engine.write().await.add_node(node(ids[i], i)).await;
                            ev!("#{idx} add {} (bucket {}) -> {}", short(&ids[i]), bucket_of(&local, &ids[i]), r.is_ok());
                        }
                        "join" => {
                            let list: Vec<NodeInfo> = op["ids"].as_array().cloned().unwrap_or_default().iter().map(|v| { let i = (v.as_u64().unwrap_or(0) as usize) % ids.len().max(1); node(ids[i], i) }).collect();
                            let r = engine.write().await.join_network(list).await;
                            ev!("#{idx} join -> {}", r.is_ok());
                        }
                        "fail" => {
                            let i = pick("id");
                            let _ = engine.write().await.handle_node_failure(NodeId::from_bytes(ids[i])).await;
                            ev!("#{idx} fail {}", short(&ids[i]));
                        }
                        "evict" => {
                            let i = pick("id");
                            let _ = engine.read().await.evict_node(&NodeId::from_bytes(ids[i]), EvictionReason::Stale).await;
                            ev!("#{idx} evict {}", short(&ids[i]));
                        }
                        "find" | "req_find_node" | "req_find_value" => {
                            let key = match op["key"].as_str().unwrap_or("random") {
                                "node" => ids[pick("key_id")],
                                "local" => local,
                                "adjacent" => { let mut k = ids[pick("key_id")]; k[31] ^= 1; k }
                                "hot" => id_in_bucket(&local, 3.min(255), op["key_salt"].as_u64().unwrap_or(0)),
                                _ => Rng::new(op["key_salt"].as_u64().unwrap_or(0) ^ 0xbeef).arr32(),
                            };
                            let count = op["count"].as_u64().unwrap_or(8) as usize;
                            let g = engine.read().await;
                            // ground truth and answer are read under the same read guard: nothing can interleave
                            let table = g.verif_routing_entries().await;
                            let (answer, cap): (Vec<NodeInfo>, usize) = match kind.as_str() {
                                "find" => (g.find_nodes(&DhtKey::from_bytes(key), count).await.unwrap_or_default(), count),
                                "req_find_node" => {
                                    let w = g.handle_request(DhtRequestWrapper { id: format!("r{idx}"), message: DhtMessage::FindNode { target: DhtKey::from_bytes(key), count } }).await;
                                    match w.response { DhtResponse::FindNodeReply { nodes, .. } => (nodes, count.min(20)), _ => (vec![], 0) }
                                }
                                _ => {
                                    let w = g.handle_request(DhtRequestWrapper { id: format!("r{idx}"), message: DhtMessage::FindValue { key: DhtKey::from_bytes(key) } }).await;
                                    match w.response { DhtResponse::FindValueReply { nodes, .. } => (nodes, 8), _ => (vec![], 0) }
                                }
                            };
                            drop(g);
                            let mut c = ctx.borrow_mut();
                            c.ops += 1;
                            // ---- table invariants
                            let tids: Vec<[u8; 32]> = table.iter().map(|n| *n.id.as_bytes()).collect();
                            let tset: BTreeSet<[u8; 32]> = tids.iter().cloned().collect();
                            if tset.len() != tids.len() {
                                c.violate("C02.table.peer_listed_twice", "", format!("the routing table holds {} entries but only {} distinct ids", tids.len(), tset.len()));
                            }
                            if tset.contains(&local) {
                                c.violate("C02.table.lists_local_node", "", "the routing table lists the local node".to_string());
                            }
                            let buckets: BTreeSet<usize> = tset.iter().map(|i| bucket_of(&local, i)).collect();
                            if buckets.len() >= 3 { c.nontrivial = true; }
                            if buckets.contains(&0) || buckets.contains(&255) { c.probe("edge_bucket_populated"); }
                            // ---- exact answer
                            let mut want: Vec<[u8; 32]> = tset.iter().cloned().collect();
                            want.sort_by_key(|i| xor(i, &key));
                            want.truncate(cap);
                            let got: Vec<[u8; 32]> = answer.iter().map(|n| *n.id.as_bytes()).collect();
                            ev!("#{idx} {kind} count={count} table={} -> {} ids", tset.len(), got.len());
                            let gset: BTreeSet<[u8; 32]> = got.iter().cloned().collect();
                            let situation = format!("{kind}:target_bucket={}", match bucket_of(&local, &key) { 0 => "0".to_string(), 255 => "255".to_string(), b if b < 8 => "low".to_string(), b if b > 247 => "high".to_string(), _ => "mid".to_string() });
                            if got.len() > cap {
                                c.violate("C02.answer.exceeds_cap", kind.clone(), format!("{} entries returned, cap {}", got.len(), cap));
                            }
                            if gset.len() != got.len() {
                                c.violate("C02.answer.duplicate_peer", situation.clone(), format!("answer of {} entries names only {} distinct peers", got.len(), gset.len()));
                            }
                            if got.iter().any(|i| *i == local) {
                                c.violate("C02.answer.contains_local_node", situation.clone(), "answer contains the local node".to_string());
                            }
                            if got.windows(2).any(|w| xor(&w[0], &key) > xor(&w[1], &key)) {
                                c.violate("C02.answer.not_ascending", situation.clone(), "answer is not in ascending XOR distance".to_string());
                            }
                            if gset.iter().any(|i| !tset.contains(i)) {
                                c.violate("C02.answer.peer_not_in_table", situation.clone(), "answer names a peer the table does not hold".to_string());
                            }
                            // closest-set exactness, judged on distinct non-local peers so that it stays
                            // meaningful when the duplicate / local-node clauses already fired
                            let want_clean: Vec<[u8; 32]> = want.iter().filter(|i| **i != local).cloned().collect();
                            let mut got_clean: Vec<[u8; 32]> = Vec::new();
                            for i in &got { if *i != local && !got_clean.contains(i) { got_clean.push(*i); } }
                            if got_clean != want_clean && !(tset.contains(&local)) {
                                let missing = want_clean.iter().filter(|i| !got_clean.contains(i)).count();
                                c.violate("C02.answer.not_the_closest_set", situation, format!("asked {cap}, table holds {} peers: answer has {} distinct peers, {} of the true closest {} are missing", tset.len(), got_clean.len(), missing, want_clean.len()));
                            }
                        }
                        _ => {}
                    }
                }
            }));
        }
        for h in handles {
            if let Err(e) = h.await {
                if e.is_panic() {
                    ctx2.borrow_mut().violate("C02.panic", "", "a client task panicked inside the routing table".to_string());
                }
            }
        }
    });
    drop(rt);
    let mut c = Rc::try_unwrap(ctx).ok().expect("ctx").into_inner();
    c.probes.entry("edge_bucket_populated".into()).or_insert(0);
    c.finish()
}
