//! C02 — routing-table closest-node answers are exact, duplicate-free and capped.
//!
//! SIM-COMP part: a real `DhtCoreEngine` driven by 2..4 client tasks drawing
//! join / add / failure / evict / find_nodes / handle_request(FindNode|FindValue).
//! Ground truth for every answer is the table content read through the accessor
//! at that instant; the table itself is checked for duplicates and the local id.
//! (The reply monitor over running nodes lives in the network simulation.)

use crate::ev;
use crate::simkit::shrink::drop_chunks;
use crate::simkit::{CheckDef, Ctx, Rng, RunReport, Tier, sim_runtime};
use saorsa_core::dht::core_engine::{DhtCoreEngine, DhtKey, DhtRequestWrapper, NodeCapacity, NodeId, NodeInfo};
use saorsa_core::dht::network_integration::{DhtMessage, DhtResponse};
use saorsa_core::dht::routing_maintenance::EvictionReason;
use serde_json::{Value, json};
use std::cell::RefCell;
use std::collections::BTreeSet;
use std::rc::Rc;
use std::time::{Duration, SystemTime};

pub static DEF: CheckDef = CheckDef {
    id: "C02",
    level: "exploration",
    technique: "deterministic component simulation of the routing table: seeded client tasks (join/add/fail/evict/lookup/served find-node and find-value requests) on the real DhtCoreEngine, every answer compared with the exact closest-set computed from the table content read at that instant; plus (one run in five) a reply monitor in the multi-node network simulation: a stub requester queries real nodes and every find-node/find-value/get reply is compared with the replying node's table and connected peers read at that instant",
    runs: (2500, 200000),
    generate,
    execute,
    shrink,
    rule: "each run = local id + 10..80 operations over 2..4 tasks; ids are placed by bucket (far buckets, bucket 0 and 255 edges, up to 12 ids aimed at one bucket of capacity 8, ids differing in the last byte, repeats, the local id itself); lookups use counts 0..64 and keys random / equal to a node id / the local id / adjacent to an id; non-trivial = at least one lookup over a table holding ids in >= 3 distinct buckets (net family: a reply from a node that knows more than 9 peers); net family = 2..12 real nodes in a drawn topology plus 0..13 extra stub connections, 4..14 queries (find_node / find_value / get; key random, a node position, adjacent, the requester's own; claimed source = transport id, a distinct application id, or another node's id), connection churn between queries; distinct = distinct hash of the operation/answer log",
    real_components: &["net family: TransportHandle, DhtNetworkManager::handle_lookup_request / find_closest_nodes_local / filter_response_nodes", "DhtCoreEngine (join_network, add_node, handle_node_failure, evict_node, find_nodes, handle_request)", "KademliaRoutingTable / KBucket"],
    stubbed_components: &[],
    assumptions: &["addresses are deliberately unparseable here so that admission gates (C13) stay out of the way", "calls are single lock sections; tasks contribute orderings"],
};

/// One run in five: the wire-level clause. Real nodes in a drawn topology; a stub requester that is
/// connected to all of them sends find-node / find-value / get requests for drawn keys; every reply is
/// compared with what the replying node knows (routing table plus connected peers) at that instant.
fn generate_net(seed: u64, r: &mut Rng) -> Value {
    let n = r.range(2, 12);
    let topo = *r.pick(super::c01::TOPOLOGIES);
    let edges: Vec<Value> = super::c01::gen_topology(r, n, topo).into_iter().map(|(a, b)| json!([a, b])).collect();
    let nodes: Vec<Value> = (0..n).map(|i| json!({"tid_salt": r.below(1 << 40), "ip": [11 + 17 * i, r.below(3), r.below(250), 1 + i], "port": 9000 + r.below(50)})).collect();
    let mut queries = Vec::new();
    for _ in 0..r.range(4, 14) {
        queries.push(json!({"to": r.below(n), "op": *r.pick(&["find_node", "find_node", "find_value", "get"]), "key": *r.pick(&["random", "node", "adjacent", "requester"]), "key_of": r.below(n), "salt": r.below(1 << 40),
                            "claimed": *r.pick(&["tid", "tid", "app", "victim"]), "churn": if r.chance(1, 4) { json!([r.below(n), r.below(n)]) } else { Value::Null }}));
    }
    json!({"property": "C02", "family": "net", "seed": seed, "net_seed": r.below(1 << 40), "n": n, "topology": topo, "edges": edges, "ident": if r.chance(1, 2) { "a" } else { "b" }, "k": 8, "timeout_ms": 1000,
           "nodes": nodes, "faults": {"silence": [], "slow": [], "drops": [], "dial": []}, "liars": [], "latency_ms": *r.pick(&[1u64, 5]), "jitter_ms": *r.pick(&[0u64, 4]),
           "extra_stubs": if r.chance(1, 2) { r.below(14) } else { 0 }, "queries": queries})
}

fn generate(seed: u64, tier: Tier) -> Value {
    let mut r = Rng::new(seed);
    if r.chance(1, 5) { return generate_net(seed, &mut r); }
    let local = r.bytes(32);
    let n_ops = r.range(10, if tier == Tier::Quick { 60 } else { 80 });
    let tasks = r.range(2, 4);
    // a small pool of ids described by (bucket, variant): the executor derives the bytes
    let n_ids = r.range(3, 40);
    let hot_bucket = *r.pick(&[0u64, 1, 3, 7, 128, 250, 254, 255]);
    let mut ids = Vec::new();
    for i in 0..n_ids {
        let k = r.below(100);
        let bucket = if k < 35 { hot_bucket } else if k < 50 { r.below(8) } else if k < 65 { 248 + r.below(8) } else { r.below(256) };
        let kind = if i > 0 && r.chance(1, 12) { "self" } else if i > 0 && r.chance(1, 8) { "lastbyte" } else { "bucket" };
        ids.push(json!({"bucket": bucket, "kind": kind, "salt": r.below(1 << 30), "of": r.below(i.max(1))}));
    }
    let mut ops = Vec::new();
    for _ in 0..n_ops {
        let k = r.below(100);
        let task = r.below(tasks);
        let mut op = if k < 30 {
            json!({"op": "add", "id": r.below(n_ids)})
        } else if k < 38 {
            let m = r.range(1, 4);
            json!({"op": "join", "ids": (0..m).map(|_| r.below(n_ids)).collect::<Vec<_>>()})
        } else if k < 46 {
            json!({"op": "fail", "id": r.below(n_ids)})
        } else if k < 54 {
            json!({"op": "evict", "id": r.below(n_ids)})
        } else {
            let keykind = *r.pick(&["random", "random", "node", "local", "adjacent", "hot"]);
            let count = *r.pick(&[0u64, 1, 2, 3, 5, 8, 9, 16, 20, 21, 33, 64]);
            let which = *r.pick(&["find", "find", "req_find_node", "req_find_value"]);
            json!({"op": which, "key": keykind, "key_id": r.below(n_ids), "key_salt": r.below(1 << 30), "count": count})
        };
        op["task"] = json!(task);
        ops.push(op);
    }
    json!({"property": "C02", "seed": seed, "local": hex::encode(local), "ids": ids, "ops": ops, "tasks": tasks, "hot_bucket": hot_bucket})
}

fn shrink(sc: &Value) -> Vec<Value> {
    if sc["family"] == "net" {
        let mut v = drop_chunks(sc, "queries");
        v.extend(drop_chunks(sc, "edges"));
        if sc["extra_stubs"].as_u64().unwrap_or(0) > 0 { let mut c = sc.clone(); c["extra_stubs"] = json!(sc["extra_stubs"].as_u64().unwrap_or(0) / 2); v.push(c); }
        return v;
    }
    drop_chunks(sc, "ops")
}

/// An id in bucket `b` relative to `local`: shares the first b bits, differs at bit b.
pub fn id_in_bucket(local: &[u8; 32], b: usize, salt: u64) -> [u8; 32] {
    let mut r = Rng::new(salt ^ 0x1d);
    let mut id = r.arr32();
    let b = b.min(255);
    for i in 0..b {
        let (byte, bit) = (i / 8, 7 - (i % 8));
        let lb = (local[byte] >> bit) & 1;
        id[byte] = (id[byte] & !(1 << bit)) | (lb << bit);
    }
    let (byte, bit) = (b / 8, 7 - (b % 8));
    let lb = (local[byte] >> bit) & 1;
    id[byte] = (id[byte] & !(1 << bit)) | ((lb ^ 1) << bit);
    id
}

fn xor(a: &[u8; 32], b: &[u8; 32]) -> [u8; 32] {
    let mut o = [0u8; 32];
    for i in 0..32 {
        o[i] = a[i] ^ b[i];
    }
    o
}

fn bucket_of(local: &[u8; 32], id: &[u8; 32]) -> usize {
    let d = xor(local, id);
    for i in 0..256 {
        if (d[i / 8] >> (7 - (i % 8))) & 1 == 1 {
            return i;
        }
    }
    255
}

fn node(id: [u8; 32], n: usize) -> NodeInfo {
    NodeInfo { id: NodeId::from_bytes(id), address: format!("peer-{n}"), last_seen: SystemTime::UNIX_EPOCH + Duration::from_secs(1_700_000_000), capacity: NodeCapacity::default() }
}

fn short(id: &[u8; 32]) -> String {
    hex::encode(&id[..3])
}

/// What a node knows: DHT position -> identifiers it is known under (routing entries and connected peers).
async fn knowledge(nd: &crate::simnet::SimNode) -> std::collections::BTreeMap<[u8; 32], Vec<String>> {
    let mut k: std::collections::BTreeMap<[u8; 32], Vec<String>> = std::collections::BTreeMap::new();
    let g = nd.manager.verif_dht();
    for e in g.read().await.verif_routing_entries().await { k.entry(*e.id.as_bytes()).or_default().push(hex::encode(e.id.as_bytes())); }
    for (pid, key, addr, connected) in nd.manager.verif_dht_peers().await {
        if connected && addr.is_some() { k.entry(key).or_default().push(pid); }
    }
    k
}

fn execute_net(sc: &Value) -> RunReport {
    use saorsa_core::dht_network_manager::{DhtMessageType, DhtNetworkMessage, DhtNetworkOperation, DhtNetworkResult};
    use saorsa_core::verif_hooks;
    let seed = sc["seed"].as_u64().unwrap_or(0);
    let rt = sim_runtime(seed);
    let mut ctx = Ctx::new();
    rt.block_on(async {
        let (net, nodes) = match super::c01::build_world(sc, false).await {
            Ok(x) => x,
            Err(e) => { ctx.harness_error = Some(format!("build_world: {e}")); return; }
        };
        let n = nodes.len();
        // the requester: a stub every node has an authenticated connection from
        let q_tid = hex::encode(Rng::new(seed ^ 0xc02).arr32());
        let q_app = format!("peer_{:08x}", seed as u32);
        let q_addr: std::net::SocketAddr = "172.31.9.9:7100".parse().unwrap();
        let (q_idx, mut q_rx) = net.add_stub(&q_tid, q_addr);
        for nd in &nodes { let _ = nd.transport.verif_accept(&q_tid, q_addr).await; net.link(q_idx, nd.idx); }
        let mut keep = Vec::new();
        for e in 0..sc["extra_stubs"].as_u64().unwrap_or(0) {
            let tid = hex::encode(Rng::new(seed ^ (0xe200 + e)).arr32());
            let addr: std::net::SocketAddr = format!("{}.{}.7.7:6000", 40 + 13 * e % 180, 1 + (e * 7) % 200).parse().unwrap();
            let (idx, rx) = net.add_stub(&tid, addr);
            let to = (e as usize) % n;
            let _ = nodes[to].transport.verif_accept(&tid, addr).await;
            net.link(idx, nodes[to].idx);
            keep.push(rx);
        }
        tokio::time::sleep(Duration::from_millis(300)).await;
        let q_pos = saorsa_core::dht::derive_dht_key_from_peer_id(&q_tid);
        let mut big = false;
        for (qi, q) in sc["queries"].as_array().cloned().unwrap_or_default().iter().enumerate() {
            let to = (q["to"].as_u64().unwrap_or(0) as usize) % n;
            // connection churn between queries: what the node knows changes
            if let Some(c) = q["churn"].as_array() {
                let (a, b) = ((c[0].as_u64().unwrap_or(0) as usize) % n, (c[1].as_u64().unwrap_or(0) as usize) % n);
                if a != b { let _ = nodes[a].manager.connect_to_peer(&nodes[b].addr.to_string()).await; tokio::time::sleep(Duration::from_millis(100)).await; }
            }
            let of = (q["key_of"].as_u64().unwrap_or(0) as usize) % n;
            let of_pos = saorsa_core::dht::derive_dht_key_from_peer_id(&nodes[of].tid);
            let key: [u8; 32] = match q["key"].as_str().unwrap_or("random") {
                "node" => of_pos,
                "adjacent" => { let mut k = of_pos; k[31] ^= 1; k }
                "requester" => q_pos,
                _ => Rng::new(q["salt"].as_u64().unwrap_or(0)).arr32(),
            };
            let op = match q["op"].as_str().unwrap_or("find_node") { "find_value" => DhtNetworkOperation::FindValue { key }, "get" => DhtNetworkOperation::Get { key }, _ => DhtNetworkOperation::FindNode { key } };
            let claimed = match q["claimed"].as_str().unwrap_or("tid") { "app" => q_app.clone(), "victim" => nodes[of].tid.clone(), _ => q_tid.clone() };
            let now = std::time::SystemTime::now().duration_since(std::time::UNIX_EPOCH).map(|d| d.as_secs()).unwrap_or(0);
            let msg = DhtNetworkMessage { message_id: format!("c02-{qi}"), source: claimed.clone(), target: None, message_type: DhtMessageType::Request, payload: op, result: None, timestamp: now, ttl: 5, hop_count: 0 };
            while q_rx.try_recv().is_ok() {}
            let k0 = knowledge(&nodes[to]).await;
            net.inject(q_idx, nodes[to].idx, verif_hooks::encode_wire("/dht/1.0.0", postcard::to_stdvec(&msg).unwrap_or_default(), &claimed, now), 0);
            tokio::time::sleep(Duration::from_millis(150)).await;
            let k1 = knowledge(&nodes[to]).await;
            ctx.ops += 1;
            let mut reply = None;
            while let Ok((_f, bytes)) = q_rx.try_recv() { if let (_, Some(m), _) = crate::simnet::decode(&bytes) { if m.message_id == format!("c02-{qi}") { reply = m.result.clone(); } } }
            let listed: Vec<saorsa_core::dht_network_manager::DHTNode> = match reply {
                Some(DhtNetworkResult::NodesFound { nodes: l, .. }) => l,
                Some(DhtNetworkResult::GetNotFound { .. }) => Vec::new(),
                Some(other) => { ev!("q{qi} -> {}", crate::simnet::result_name(&other)); continue; }
                None => { ctx.violate("C02.reply.request_not_answered", "", format!("query {qi} to node {to} got no reply")); continue; }
            };
            let pos_of = |d: &saorsa_core::dht_network_manager::DHTNode| -> [u8; 32] { match d.distance.as_ref() { Some(v) if v.len() == 32 => { let mut b = [0u8; 32]; b.copy_from_slice(v); b } _ => saorsa_core::dht::derive_dht_key_from_peer_id(&d.peer_id) } };
            let got: Vec<[u8; 32]> = listed.iter().map(pos_of).collect();
            ev!("q{qi} to={to} {} key={} known={} -> {} entries", q["op"].as_str().unwrap_or(""), q["key"].as_str().unwrap_or(""), k0.len(), got.len());
            if k0.len() > 9 { big = true; }
            let situation = format!("{}:claimed_{}", if k0.len() > 8 { "knows>8" } else { "knows<=8" }, q["claimed"].as_str().unwrap_or("tid"));
            // protocol cap
            if listed.len() > 8 { ctx.violate("C02.reply.exceeds_protocol_cap", situation.clone(), format!("query {qi}: reply lists {} nodes", listed.len())); }
            // each peer once, under a single identifier
            let distinct: BTreeSet<[u8; 32]> = got.iter().copied().collect();
            let ids: BTreeSet<&String> = listed.iter().map(|d| &d.peer_id).collect();
            let addrs: BTreeSet<String> = listed.iter().map(|d| d.address.split(" (").next().unwrap_or("").to_string()).collect();
            if distinct.len() != got.len() || ids.len() != listed.len() || addrs.len() != listed.len() {
                ctx.violate("C02.reply.peer_named_twice", situation.clone(), format!("query {qi}: {} entries, {} distinct positions, {} distinct identifiers, {} distinct addresses", listed.len(), distinct.len(), ids.len(), addrs.len()));
            }
            // ascending
            if got.windows(2).any(|w| xor(&w[0], &key) > xor(&w[1], &key)) { ctx.violate("C02.reply.not_ascending", situation.clone(), format!("query {qi}")); }
            // exactly the closest of what the node knows; the requester may be left out before or after the cut
            let matches = |k: &std::collections::BTreeMap<[u8; 32], Vec<String>>| -> bool {
                let mut all: Vec<[u8; 32]> = k.keys().copied().collect();
                all.sort_by_key(|p| xor(p, &key));
                let e2: Vec<[u8; 32]> = all.iter().take(8).copied().filter(|p| *p != q_pos).collect();
                let e1: Vec<[u8; 32]> = all.iter().copied().filter(|p| *p != q_pos).take(8).collect();
                let e0: Vec<[u8; 32]> = all.iter().take(8).copied().collect();
                got == e1 || got == e2 || got == e0
            };
            if !(matches(&k0) || matches(&k1)) {
                let mut all: Vec<[u8; 32]> = k1.keys().copied().collect();
                all.sort_by_key(|p| xor(p, &key));
                ctx.violate("C02.reply.not_the_closest_known", situation, format!("query {qi} to node {to}: reply {:?}; the node knows {} peers, closest {:?}", got.iter().map(short).collect::<Vec<_>>(), all.len(), all.iter().take(9).map(short).collect::<Vec<_>>()));
            }
        }
        ctx.nontrivial = big;
        if big { ctx.probe("net_reply_from_node_knowing_more_than_8"); }
        ctx.probe("net_family_runs");
        ctx.sim_ms += net.now_ms();
        net.shutdown();
        drop(keep);
    });
    drop(rt);
    ctx.finish()
}

fn execute(sc: &Value) -> RunReport {
    if sc["family"] == "net" { return execute_net(sc); }
    let seed = sc["seed"].as_u64().unwrap_or(0);
    let mut local = [0u8; 32];
    hex::decode_to_slice(sc["local"].as_str().unwrap_or(""), &mut local).ok();
    // derive id bytes
    let mut idbytes: Vec<[u8; 32]> = Vec::new();
    for (i, d) in sc["ids"].as_array().cloned().unwrap_or_default().iter().enumerate() {
        let b = d["bucket"].as_u64().unwrap_or(0) as usize;
        let salt = d["salt"].as_u64().unwrap_or(0);
        let id = match d["kind"].as_str().unwrap_or("bucket") {
            "self" => local,
            "lastbyte" if i > 0 => {
                let mut x = idbytes[(d["of"].as_u64().unwrap_or(0) as usize) % i];
                x[31] ^= 1 + (salt % 255) as u8;
                x
            }
            _ => id_in_bucket(&local, b, salt),
        };
        idbytes.push(id);
    }
    let ops: Vec<Value> = sc["ops"].as_array().cloned().unwrap_or_default();
    let tasks = sc["tasks"].as_u64().unwrap_or(1).max(1);
    let rt = sim_runtime(seed);
    let ctx = Rc::new(RefCell::new(Ctx::new()));
    let local_set = tokio::task::LocalSet::new();
    let ctx2 = ctx.clone();
    local_set.block_on(&rt, async move {
        let engine = DhtCoreEngine::verif_new(NodeId::from_bytes(local), true).expect("engine");
        let engine = Rc::new(tokio::sync::RwLock::new(engine));
        let idbytes = Rc::new(idbytes);
        let mut handles = Vec::new();
        for t in 0..tasks {
            let mine: Vec<(usize, Value)> = ops.iter().cloned().enumerate().filter(|(_, o)| o["task"].as_u64().unwrap_or(0) % tasks == t).collect();
            let engine = engine.clone();
            let ctx = ctx2.clone();
            let ids = idbytes.clone();
            handles.push(tokio::task::spawn_local(async move {
                for (idx, op) in mine {
                    tokio::task::yield_now().await;
                    let kind = op["op"].as_str().unwrap_or("").to_string();
                    let pick = |k: &str| -> usize { (op[k].as_u64().unwrap_or(0) as usize) % ids.len().max(1) };
                    match kind.as_str() {
                        "add" => {
                            let i = pick("id");
                            let r = engine.write().await.add_node(node(ids[i], i)).await;
                            ev!("#{idx} add {} (bucket {}) -> {}", short(&ids[i]), bucket_of(&local, &ids[i]), r.is_ok());
                        }
                        "join" => {
                            let list: Vec<NodeInfo> = op["ids"].as_array().cloned().unwrap_or_default().iter().map(|v| { let i = (v.as_u64().unwrap_or(0) as usize) % ids.len().max(1); node(ids[i], i) }).collect();
                            let r = engine.write().await.join_network(list).await;
                            ev!("#{idx} join -> {}", r.is_ok());
                        }
                        "fail" => {
                            let i = pick("id");
                            let _ = engine.write().await.handle_node_failure(NodeId::from_bytes(ids[i])).await;
                            ev!("#{idx} fail {}", short(&ids[i]));
                        }
                        "evict" => {
                            let i = pick("id");
                            let _ = engine.read().await.evict_node(&NodeId::from_bytes(ids[i]), EvictionReason::Stale).await;
                            ev!("#{idx} evict {}", short(&ids[i]));
                        }
                        "find" | "req_find_node" | "req_find_value" => {
                            let key = match op["key"].as_str().unwrap_or("random") {
                                "node" => ids[pick("key_id")],
                                "local" => local,
                                "adjacent" => { let mut k = ids[pick("key_id")]; k[31] ^= 1; k }
                                "hot" => id_in_bucket(&local, 3.min(255), op["key_salt"].as_u64().unwrap_or(0)),
                                _ => Rng::new(op["key_salt"].as_u64().unwrap_or(0) ^ 0xbeef).arr32(),
                            };
                            let count = op["count"].as_u64().unwrap_or(8) as usize;
                            let g = engine.read().await;
                            // ground truth and answer are read under the same read guard: nothing can interleave
                            let table = g.verif_routing_entries().await;
                            let (answer, cap): (Vec<NodeInfo>, usize) = match kind.as_str() {
                                "find" => (g.find_nodes(&DhtKey::from_bytes(key), count).await.unwrap_or_default(), count),
                                "req_find_node" => {
                                    let w = g.handle_request(DhtRequestWrapper { id: format!("r{idx}"), message: DhtMessage::FindNode { target: DhtKey::from_bytes(key), count } }).await;
                                    match w.response { DhtResponse::FindNodeReply { nodes, .. } => (nodes, count.min(20)), _ => (vec![], 0) }
                                }
                                _ => {
                                    let w = g.handle_request(DhtRequestWrapper { id: format!("r{idx}"), message: DhtMessage::FindValue { key: DhtKey::from_bytes(key) } }).await;
                                    match w.response { DhtResponse::FindValueReply { nodes, .. } => (nodes, 8), _ => (vec![], 0) }
                                }
                            };
                            drop(g);
                            let mut c = ctx.borrow_mut();
                            c.ops += 1;
                            // ---- table invariants
                            let tids: Vec<[u8; 32]> = table.iter().map(|n| *n.id.as_bytes()).collect();
                            let tset: BTreeSet<[u8; 32]> = tids.iter().cloned().collect();
                            if tset.len() != tids.len() {
                                c.violate("C02.table.peer_listed_twice", "", format!("the routing table holds {} entries but only {} distinct ids", tids.len(), tset.len()));
                            }
                            if tset.contains(&local) {
                                c.violate("C02.table.lists_local_node", "", "the routing table lists the local node".to_string());
                            }
                            let buckets: BTreeSet<usize> = tset.iter().map(|i| bucket_of(&local, i)).collect();
                            if buckets.len() >= 3 { c.nontrivial = true; }
                            if buckets.contains(&0) || buckets.contains(&255) { c.probe("edge_bucket_populated"); }
                            // ---- exact answer
                            let mut want: Vec<[u8; 32]> = tset.iter().cloned().collect();
                            want.sort_by_key(|i| xor(i, &key));
                            want.truncate(cap);
                            let got: Vec<[u8; 32]> = answer.iter().map(|n| *n.id.as_bytes()).collect();
                            ev!("#{idx} {kind} count={count} table={} -> {} ids", tset.len(), got.len());
                            let gset: BTreeSet<[u8; 32]> = got.iter().cloned().collect();
                            let situation = format!("{kind}:target_bucket={}", match bucket_of(&local, &key) { 0 => "0".to_string(), 255 => "255".to_string(), b if b < 8 => "low".to_string(), b if b > 247 => "high".to_string(), _ => "mid".to_string() });
                            if got.len() > cap {
                                c.violate("C02.answer.exceeds_cap", kind.clone(), format!("{} entries returned, cap {}", got.len(), cap));
                            }
                            if gset.len() != got.len() {
                                c.violate("C02.answer.duplicate_peer", situation.clone(), format!("answer of {} entries names only {} distinct peers", got.len(), gset.len()));
                            }
                            if got.iter().any(|i| *i == local) {
                                c.violate("C02.answer.contains_local_node", situation.clone(), "answer contains the local node".to_string());
                            }
                            if got.windows(2).any(|w| xor(&w[0], &key) > xor(&w[1], &key)) {
                                c.violate("C02.answer.not_ascending", situation.clone(), "answer is not in ascending XOR distance".to_string());
                            }
                            if gset.iter().any(|i| !tset.contains(i)) {
                                c.violate("C02.answer.peer_not_in_table", situation.clone(), "answer names a peer the table does not hold".to_string());
                            }
                            // closest-set exactness, judged on distinct non-local peers so that it stays
                            // meaningful when the duplicate / local-node clauses already fired
                            let want_clean: Vec<[u8; 32]> = want.iter().filter(|i| **i != local).cloned().collect();
                            let mut got_clean: Vec<[u8; 32]> = Vec::new();
                            for i in &got { if *i != local && !got_clean.contains(i) { got_clean.push(*i); } }
                            if got_clean != want_clean && !(tset.contains(&local)) {
                                let missing = want_clean.iter().filter(|i| !got_clean.contains(i)).count();
                                c.violate("C02.answer.not_the_closest_set", situation, format!("asked {cap}, table holds {} peers: answer has {} distinct peers, {} of the true closest {} are missing", tset.len(), got_clean.len(), missing, want_clean.len()));
                            }
                        }
                        _ => {}
                    }
                }
            }));
        }
        for h in handles {
            if let Err(e) = h.await {
                if e.is_panic() {
                    ctx2.borrow_mut().violate("C02.panic", "", "a client task panicked inside the routing table".to_string());
                }
            }
        }
    });
    drop(rt);
    let mut c = Rc::try_unwrap(ctx).ok().expect("ctx").into_inner();
    c.probes.entry("edge_bucket_populated".into()).or_insert(0);
    c.finish()
}
