//! C03 — put stores on every replica it reports; get returns only stored bytes.
//!
//! SIM-NET with ground-truth stores: interleaved put / put_with_targets /
//! store_local / get from arbitrary nodes over a small key set with unique values,
//! arbitrary subsets of peers unresponsive. Every node's store is read directly
//! after each operation.

use crate::ev;
use crate::simkit::shrink::drop_chunks;
use crate::simkit::{CheckDef, Ctx, Rng, RunReport, Tier, sim_runtime};
use crate::simnet::{self, Fate};
use saorsa_core::dht_network_manager::{DhtMessageType, DhtNetworkMessage, DhtNetworkOperation, DhtNetworkResult};
use saorsa_core::verif_hooks;
use serde_json::{Value, json};
use std::collections::{BTreeMap, BTreeSet};
use std::time::Duration;

use super::c01::{build_world, directory, gen_topology, xor, TOPOLOGIES};

pub static DEF: CheckDef = CheckDef {
    id: "C03",
    level: "exploration",
    technique: "deterministic multi-node network simulation with ground-truth stores: seeded histories of put / targeted put / local store / get over real nodes on the in-memory transport with unresponsive peers; every node's store is read after each operation and compared with the values the history issued; RPC trace oracle for targets and for not-found",
    runs: (1200, 40000),
    generate,
    execute,
    shrink,
    rule: "each run = 2..12 real nodes (7 topologies, identity configurations a/b, K in {1,2,3,8}), 3..14 operations (serial in three runs of four, overlapping in one) over 2..6 keys with unique values of 0..600 bytes (boundary 511/512/513), one forged oversized PUT frame from a stub in one run of three, faults restricted to unresponsive peers (silence, drops, refused/black-holed dials); non-trivial = a put that reached at least one remote replica followed by a get from another node; distinct = distinct hash of the operation/result log",
    real_components: &["DhtNetworkManager (put, put_with_targets, store_local, get, get_local, request handlers)", "DhtCoreEngine data store", "TransportHandle up to the seam"],
    stubbed_components: &["ant-quic: in-memory network", "one stub peer that sends a forged oversized PUT frame"],
    assumptions: &["three runs in four are serial (one client operation in flight network-wide) with the full per-operation oracle; one in four overlaps the operations in time (with seeded yields at the manager's locks) and is judged at quiescence: holders hold a value issued for the key (exactly the accepted one when it is the key's only value), gets return only values issued for the key, no PUT to self, nothing oversized or foreign anywhere", "no lying peers (a plain DHT cannot tell a forged value)"],
};

fn generate(seed: u64, tier: Tier) -> Value {
    let mut r = Rng::new(seed);
    let n = if tier == Tier::Quick { r.range(2, 10) } else { r.range(2, 12) };
    let topo = *r.pick(TOPOLOGIES);
    let edges: Vec<Value> = gen_topology(&mut r, n, topo).into_iter().map(|(a, b)| json!([a, b])).collect();
    let nodes: Vec<Value> = (0..n).map(|i| json!({"tid_salt": r.below(1 << 40), "ip": [10, r.below(3), r.below(250), 1 + i % 250], "port": 9000 + r.below(50)})).collect();
    let keys = r.range(2, 6);
    let mut ops = Vec::new();
    for _ in 0..r.range(3, 14) {
        let k = r.below(100);
        let len = *r.pick(&[0u64, 1, 20, 100, 400, 511, 512, 513, 600]);
        let op = if k < 35 { json!({"op": "put", "node": r.below(n), "key": r.below(keys), "len": len}) }
            else if k < 45 { json!({"op": "put_targets", "node": r.below(n), "key": r.below(keys), "len": len, "targets": (0..r.range(0, 3)).map(|_| r.below(n)).collect::<Vec<_>>()}) }
            else if k < 52 { json!({"op": "store_local", "node": r.below(n), "key": r.below(keys), "len": len}) }
            else { json!({"op": "get", "node": r.below(n), "key": r.below(keys)}) };
        ops.push(op);
    }
    if r.chance(1, 3) {
        let at = r.usize_below(ops.len() + 1);
        ops.insert(at, json!({"op": "forged_put", "victim": r.below(n), "key": r.below(keys), "len": *r.pick(&[513u64, 600, 512])}));
    }
    // one run in four: the operations overlap in time (start offsets), judged at quiescence
    let concurrent = r.chance(1, 4);
    if concurrent {
        ops.retain(|o| o["op"] != "forged_put");
        let tmo = 1000u64;
        for o in ops.iter_mut() { o["start_ms"] = json!(r.below(2 * tmo)); }
    }
    let fault_free = r.chance(1, 3);
    let mut faults = json!({"silence": [], "slow": [], "drops": [], "dial": []});
    if !fault_free {
        for _ in 0..r.below(3) { faults["silence"].as_array_mut().unwrap().push(json!({"node": r.below(n)})); }
        for _ in 0..r.below(5) { faults["drops"].as_array_mut().unwrap().push(json!({"from": r.below(n), "to": r.below(n), "nth": r.range(1, 8), "kind": "drop"})); }
        for _ in 0..r.below(3) { faults["dial"].as_array_mut().unwrap().push(json!({"from": r.below(n), "to": r.below(n), "kind": *r.pick(&["refuse", "blackhole"])})); }
    }
    json!({"property": "C03", "seed": seed, "net_seed": r.below(1 << 40), "n": n, "topology": topo, "edges": edges, "ident": if r.chance(2, 3) { "a" } else { "b" },
           "k": *r.pick(&[1u64, 2, 3, 8, 8]), "timeout_ms": *r.pick(&[500u64, 1000, 3000]), "nodes": nodes, "ops": ops, "faults": faults, "fault_free": fault_free, "concurrent": concurrent, "yield_rate": if concurrent { *r.pick(&[0u64, 32, 128]) } else { 0 },
           "latency_ms": *r.pick(&[1u64, 5, 20]), "jitter_ms": *r.pick(&[0u64, 3, 30]), "liars": []})
}

fn shrink(sc: &Value) -> Vec<Value> {
    let mut v = drop_chunks(sc, "ops");
    for k in ["silence", "drops", "dial"] {
        if let Some(arr) = sc["faults"][k].as_array() {
            for i in 0..arr.len() {
                let mut c = sc.clone();
                c["faults"][k].as_array_mut().unwrap().remove(i);
                v.push(c);
            }
        }
    }
    v.extend(drop_chunks(sc, "edges"));
    v
}

fn key_bytes(k: u64) -> [u8; 32] {
    Rng::new(k ^ 0xc03_c03).arr32()
}

fn value_for(seed: u64, idx: usize, len: usize) -> Vec<u8> {
    let mut v = format!("v{idx}.{:x}.", seed & 0xffff).into_bytes();
    if v.len() > len { v.truncate(len); }
    while v.len() < len { v.push(b'a' + (v.len() % 26) as u8); }
    v
}

fn now_secs() -> u64 {
    std::time::SystemTime::now().duration_since(std::time::UNIX_EPOCH).map(|d| d.as_secs()).unwrap_or(0)
}

/// Concurrent regime: operations overlap; everything is judged once the network is quiet.
fn execute_concurrent(sc: &Value) -> RunReport {
    use std::sync::{Arc, Mutex};
    let seed = sc["seed"].as_u64().unwrap_or(0);
    let rt = sim_runtime(seed);
    let mut ctx = Ctx::new();
    rt.block_on(async {
        let (net, nodes) = match build_world(sc, false).await {
            Ok(x) => x,
            Err(e) => { ctx.harness_error = Some(format!("build_world: {e}")); return; }
        };
        let n = nodes.len();
        let tids: Vec<String> = nodes.iter().map(|x| x.tid.clone()).collect();
        let apps: Vec<String> = nodes.iter().map(|x| x.app_id.clone()).collect();
        let dir = directory(&tids, &apps);
        let timeout_ms = sc["timeout_ms"].as_u64().unwrap_or(3000);
        let b_op = Duration::from_millis(25 * (timeout_ms.min(5000) + timeout_ms) + 5 * timeout_ms + 5000);
        let silent: BTreeSet<usize> = sc["faults"]["silence"].as_array().map(|a| a.iter().map(|s| s["node"].as_u64().unwrap_or(0) as usize).collect()).unwrap_or_default();
        verif_hooks::set_yield_points(sc["yield_rate"].as_u64().unwrap_or(0) as u32, seed ^ 0x33);
        let ops: Vec<Value> = sc["ops"].as_array().cloned().unwrap_or_default();
        // values issued per key (any size <= 512 may legitimately sit in a store, whether or not the op reported success)
        let mut issued: BTreeMap<u64, Vec<Vec<u8>>> = BTreeMap::new();
        for (idx, op) in ops.iter().enumerate() {
            if matches!(op["op"].as_str(), Some("put") | Some("put_targets") | Some("store_local")) {
                let len = op["len"].as_u64().unwrap_or(0) as usize;
                if len <= 512 { issued.entry(op["key"].as_u64().unwrap_or(0)).or_default().push(value_for(seed, idx, len)); }
            }
        }
        type Out = (usize, String, usize, u64, Result<Option<DhtNetworkResult>, String>);
        let outs: Arc<Mutex<Vec<Out>>> = Arc::new(Mutex::new(Vec::new()));
        let mut hs = Vec::new();
        for (idx, op) in ops.iter().enumerate() {
            let kind = op["op"].as_str().unwrap_or("").to_string();
            let a = (op["node"].as_u64().unwrap_or(0) as usize) % n;
            if silent.contains(&a) || kind == "forged_put" { continue; }
            let kid = op["key"].as_u64().unwrap_or(0);
            let key = key_bytes(kid);
            let len = op["len"].as_u64().unwrap_or(0) as usize;
            let value = value_for(seed, idx, len);
            let targets: Vec<String> = op["targets"].as_array().map(|t| t.iter().map(|x| tids[(x.as_u64().unwrap_or(0) as usize) % n].clone()).filter(|t| *t != tids[a]).collect()).unwrap_or_default();
            let start = op["start_ms"].as_u64().unwrap_or(0);
            let mgr = nodes[a].manager.clone();
            let outs = outs.clone();
            ctx.ops += 1;
            hs.push(tokio::spawn(async move {
                tokio::time::sleep(Duration::from_millis(start)).await;
                let r = tokio::time::timeout(b_op, async {
                    match kind.as_str() {
                        "put" => mgr.put(key, value.clone()).await.map(Some),
                        "put_targets" => mgr.put_with_targets(key, value.clone(), &targets).await.map(Some),
                        "store_local" => mgr.store_local(key, value.clone()).await.map(|_| None),
                        _ => mgr.get(&key).await.map(Some),
                    }
                }).await;
                let res = match r { Err(_) => Err("DID-NOT-RETURN".to_string()), Ok(Err(e)) => Err(e.to_string()), Ok(Ok(x)) => Ok(x) };
                outs.lock().unwrap().push((idx, kind, a, kid, res));
            }));
        }
        for h in hs { let _ = h.await; }
        tokio::time::sleep(Duration::from_millis(2 * timeout_ms + 300)).await;
        verif_hooks::set_yield_points(0, 0);
        // ---- stores at quiescence
        let mut store: Vec<BTreeMap<[u8; 32], Vec<u8>>> = Vec::new();
        for nd in &nodes {
            let dht = nd.manager.verif_dht();
            store.push(dht.read().await.verif_store_entries().await.into_iter().map(|(k, v)| (*k.as_bytes(), v)).collect());
        }
        let mut outs = outs.lock().unwrap().clone();
        outs.sort_by_key(|o| o.0);
        let accepted_for_key = |kid: u64| -> usize { issued.get(&kid).map(|v| v.len()).unwrap_or(0) };
        let mut overlapping_puts = false;
        for (idx, kind, a, kid, res) in &outs {
            let key = key_bytes(*kid);
            let len = ops[*idx]["len"].as_u64().unwrap_or(0) as usize;
            let value = value_for(seed, *idx, len);
            ev!("#{idx} {kind} node={a} k{kid} len={len} -> {}", match res { Ok(Some(r)) => simnet::result_name(r).to_string(), Ok(None) => "ok".into(), Err(e) => format!("err {}", e.chars().take(50).collect::<String>()) });
            match (kind.as_str(), res) {
                (_, Err(e)) if e == "DID-NOT-RETURN" => ctx.violate("C03.op.did_not_return", format!("concurrent:{kind}"), format!("op #{idx} {kind} at node {a} did not return within {b_op:?}")),
                ("get", Ok(Some(DhtNetworkResult::GetSuccess { value: v, .. }))) => {
                    let under_key = issued.get(kid).map(|x| x.contains(v)).unwrap_or(false);
                    if !under_key {
                        let other = issued.iter().any(|(k2, x)| k2 != kid && x.contains(v));
                        ctx.violate(if other { "C03.get.value_of_another_key" } else { "C03.get.value_never_stored" }, "concurrent", format!("op #{idx}: get(k{kid}) at node {a} returned {} bytes that no put issued under that key", v.len()));
                    }
                }
                ("get", _) => {}
                (_, Err(_)) => {} // an error is not an acceptance
                (_, Ok(r)) => {
                    if len > 512 { ctx.violate("C03.size.oversized_value_accepted", format!("concurrent:{kind}"), format!("op #{idx}: a {len}-byte value was accepted")); continue; }
                    if accepted_for_key(*kid) > 1 { overlapping_puts = true; }
                    // holders must hold a value issued for this key; exactly this value if it is the only one ever issued for the key
                    let mut holders = vec![*a];
                    if let Some(DhtNetworkResult::PutSuccess { peer_outcomes, .. }) = r {
                        for o in peer_outcomes {
                            match dir.ids.get(&o.peer_id) {
                                Some(x) if x == a => ctx.violate("C03.put.local_node_listed_as_network_target", format!("concurrent:{kind}"), format!("op #{idx}: peer_outcomes names the putting node itself")),
                                Some(x) if o.success => holders.push(*x),
                                Some(_) => {}
                                None => ctx.violate("C03.put.unknown_peer_in_outcomes", format!("concurrent:{kind}"), format!("op #{idx}: outcome for unknown peer {}", o.peer_id)),
                            }
                        }
                    }
                    for h in holders {
                        let held = store[h].get(&key);
                        let ok = match held {
                            Some(v) if accepted_for_key(*kid) <= 1 => *v == value,
                            Some(v) => issued.get(kid).map(|x| x.contains(v)).unwrap_or(false),
                            None => false,
                        };
                        if !ok {
                            ctx.violate(if h == *a { "C03.put.local_node_does_not_hold_value" } else { "C03.put.reported_replica_does_not_hold_value" }, format!("concurrent:{kind}"), format!("op #{idx}: at quiescence node {h} holds {:?} bytes for k{kid}; the accepted value has {len} bytes ({} values were issued for this key)", held.map(|v| v.len()), accepted_for_key(*kid)));
                        }
                    }
                }
            }
        }
        // ---- PUT frames: never to the sender itself, never carrying more than 512 bytes
        for f in net.frames() {
            if let Some(m) = &f.dht {
                if let (DhtMessageType::Request, DhtNetworkOperation::Put { value, .. }) = (&m.message_type, &m.payload) {
                    if f.from == f.to { ctx.violate("C03.put.request_sent_to_self", "concurrent", format!("node {} sent a PUT frame to itself", f.from)); }
                    if value.len() > 512 { ctx.violate("C03.size.oversized_value_sent", "concurrent", format!("a {}-byte value travelled in a PUT frame", value.len())); }
                }
            }
        }
        // ---- nothing foreign or oversized in any store
        for (x, st) in store.iter().enumerate() {
            for (k, v) in st {
                if v.len() > 512 { ctx.violate("C03.size.store_holds_oversized_value", "concurrent", format!("node {x} holds a {}-byte value", v.len())); }
                let kid = (0..8u64).find(|i| key_bytes(*i) == *k);
                if !kid.and_then(|i| issued.get(&i)).map(|vals| vals.contains(v)).unwrap_or(false) {
                    ctx.violate("C03.store.holds_pair_no_put_issued", "concurrent", format!("node {x} holds ({:?}, {} bytes) which no put issued", kid, v.len()));
                }
            }
        }
        ctx.probe("concurrent_regime_runs");
        if overlapping_puts { ctx.probe("concurrent_puts_on_one_key"); ctx.nontrivial = true; }
        ctx.sim_ms += net.now_ms();
        for (k, v) in net.fired() { for _ in 0..v { ctx.fault(&k); } }
        net.shutdown();
    });
    drop(rt);
    ctx.finish()
}

fn execute(sc: &Value) -> RunReport {
    if sc["concurrent"].as_bool().unwrap_or(false) { return execute_concurrent(sc); }
    let seed = sc["seed"].as_u64().unwrap_or(0);
    let rt = sim_runtime(seed);
    let mut ctx = Ctx::new();
    rt.block_on(async {
        let (net, nodes) = match build_world(sc, false).await {
            Ok(x) => x,
            Err(e) => { ctx.harness_error = Some(format!("build_world: {e}")); return; }
        };
        let n = nodes.len();
        let tids: Vec<String> = nodes.iter().map(|x| x.tid.clone()).collect();
        let apps: Vec<String> = nodes.iter().map(|x| x.app_id.clone()).collect();
        let dir = directory(&tids, &apps);
        let k_rep = sc["k"].as_u64().unwrap_or(8) as usize;
        let timeout_ms = sc["timeout_ms"].as_u64().unwrap_or(3000);
        let b_op = Duration::from_millis(25 * (timeout_ms.min(5000) + timeout_ms) + 5 * timeout_ms + 5000);
        let silent: BTreeSet<usize> = sc["faults"]["silence"].as_array().map(|a| a.iter().map(|s| s["node"].as_u64().unwrap_or(0) as usize).collect()).unwrap_or_default();
        // a stub for forged frames, connected to nobody until needed
        let stub_tid = hex::encode(Rng::new(seed ^ 0x57ab).arr32());
        let (stub_idx, _stub_rx) = net.add_stub(&stub_tid, "10.222.0.1:7000".parse().unwrap());
        // issued[(key)] = values any put/store issued under that key (accepted sizes only are expected in stores)
        let mut issued: BTreeMap<u64, Vec<Vec<u8>>> = BTreeMap::new();
        let mut remote_put_done = false;

        for (idx, op) in sc["ops"].as_array().cloned().unwrap_or_default().iter().enumerate() {
            let kind = op["op"].as_str().unwrap_or("").to_string();
            let kid = op["key"].as_u64().unwrap_or(0);
            let key = key_bytes(kid);
            ctx.ops += 1;
            let seq0 = net.next_seq();
            let t0 = net.now_ms();
            match kind.as_str() {
                "put" | "put_targets" | "store_local" => {
                    let a = (op["node"].as_u64().unwrap_or(0) as usize) % n;
                    if silent.contains(&a) { continue; }
                    let len = op["len"].as_u64().unwrap_or(10) as usize;
                    let value = value_for(seed, idx, len);
                    let targets: Vec<String> = op["targets"].as_array().map(|t| t.iter().map(|x| tids[(x.as_u64().unwrap_or(0) as usize) % n].clone()).filter(|t| *t != tids[a]).collect()).unwrap_or_default();
                    let res = tokio::time::timeout(b_op, async {
                        match kind.as_str() {
                            "put" => nodes[a].manager.put(key, value.clone()).await.map(Some),
                            "put_targets" => nodes[a].manager.put_with_targets(key, value.clone(), &targets).await.map(Some),
                            _ => nodes[a].manager.store_local(key, value.clone()).await.map(|_| None),
                        }
                    }).await;
                    ctx.sim_ms += net.now_ms() - t0;
                    let frames = net.frames_since(seq0);
                    let put_frames: Vec<&simnet::Frame> = frames.iter().filter(|f| f.from == a && f.dht.as_ref().map(|m| matches!(m.message_type, DhtMessageType::Request) && matches!(&m.payload, DhtNetworkOperation::Put { key: k, .. } if *k == key)).unwrap_or(false)).collect();
                    let res = match res {
                        Err(_) => { ctx.violate("C03.op.did_not_return", kind.clone(), format!("op #{idx} {kind} at node {a} did not return within {b_op:?}")); continue; }
                        Ok(r) => r,
                    };
                    ev!("#{idx} {kind} node={a} key=k{kid} len={len} -> {}", match &res { Ok(_) => "ok".to_string(), Err(e) => format!("err {e}") });
                    if len > 512 {
                        if res.is_ok() {
                            ctx.violate("C03.size.oversized_value_accepted", kind.clone(), format!("op #{idx}: a {len}-byte value was accepted by {kind}"));
                        }
                        if !put_frames.is_empty() {
                            ctx.violate("C03.size.oversized_value_sent", kind.clone(), format!("op #{idx}: a {len}-byte value was sent in {} PUT frames", put_frames.len()));
                        }
                        continue;
                    }
                    let Ok(res) = res else {
                        // an error is not an acceptance; nothing to check beyond "no foreign data anywhere" (end of run)
                        issued.entry(kid).or_default().push(value.clone());
                        continue;
                    };
                    issued.entry(kid).or_default().push(value.clone());
                    // ---- the local node holds the value
                    match nodes[a].manager.get_local(&key).await {
                        Ok(Some(v)) if v == value => {}
                        other => ctx.violate("C03.put.local_node_does_not_hold_value", kind.clone(), format!("op #{idx}: after {kind} the local node's store has {:?} for the key instead of the {len}-byte value", other.map(|o| o.map(|v| v.len())).ok())),
                    }
                    if let Some(DhtNetworkResult::PutSuccess { peer_outcomes, replicated_to, .. }) = res {
                        // ---- every replica reported successful holds the value, byte for byte
                        let mut reported: BTreeSet<usize> = BTreeSet::new();
                        let mut ok_remote = 0usize;
                        for o in &peer_outcomes {
                            match dir.ids.get(&o.peer_id) {
                                Some(x) if *x == a => {
                                    ctx.violate("C03.put.local_node_listed_as_network_target", kind.clone(), format!("op #{idx}: peer_outcomes names the putting node itself ({}, success={})", o.peer_id, o.success));
                                }
                                Some(x) => {
                                    reported.insert(*x);
                                    if o.success {
                                        ok_remote += 1;
                                        match nodes[*x].manager.get_local(&key).await {
                                            Ok(Some(v)) if v == value => { remote_put_done = true; }
                                            other => ctx.violate("C03.put.reported_replica_does_not_hold_value", kind.clone(), format!("op #{idx}: node {x} is reported as a successful replica but its store has {:?}", other.map(|o| o.map(|v| v.len())).ok())),
                                        }
                                    }
                                }
                                None => ctx.violate("C03.put.unknown_peer_in_outcomes", kind.clone(), format!("op #{idx}: outcome for unknown peer {}", o.peer_id)),
                            }
                        }
                        if replicated_to != ok_remote + 1 {
                            ctx.violate("C03.put.replica_count_inconsistent", kind.clone(), format!("op #{idx}: replicated_to={replicated_to} but {} remote successes + local", ok_remote));
                        }
                        // ---- PUT frames go to exactly the reported peers, never to the putting node
                        let sent_to: BTreeSet<usize> = put_frames.iter().map(|f| f.to).collect();
                        if sent_to.contains(&a) {
                            ctx.violate("C03.put.request_sent_to_self", kind.clone(), format!("op #{idx}: a PUT frame was addressed to the putting node"));
                        }
                        // a reported peer without a frame is one whose send failed before the wire: fine; a frame to an unreported peer is not
                        if let Some(x) = sent_to.iter().find(|x| !reported.contains(x)) {
                            ctx.violate("C03.put.request_sent_to_unreported_peer", kind.clone(), format!("op #{idx}: PUT frame sent to node {x}, which the result does not report"));
                        }
                        // ---- targets = remote members of the closest-node lookup the put performed
                        if kind == "put" {
                            let find_reqs: BTreeMap<String, (usize, u64)> = frames.iter().filter(|f| f.from == a && f.dht.as_ref().map(|m| matches!(m.message_type, DhtMessageType::Request) && matches!(m.payload, DhtNetworkOperation::FindNode { key: k } if k == key)).unwrap_or(false)).map(|f| (f.dht.as_ref().unwrap().message_id.clone(), (f.to, f.t_ms))).collect();
                            let mut strict: BTreeSet<usize> = BTreeSet::new();
                            let mut lenient: BTreeSet<usize> = BTreeSet::new();
                            for f in frames.iter().filter(|f| f.to == a && f.fate == Fate::Delivered) {
                                if let Some(m) = f.dht.as_ref() {
                                    if let Some((to, t)) = find_reqs.get(&m.message_id) {
                                        if matches!(m.message_type, DhtMessageType::Response) && *to == f.from {
                                            if f.deliver_ms + 3 <= t + timeout_ms { strict.insert(f.from); }
                                            if f.deliver_ms <= t + timeout_ms + 3 { lenient.insert(f.from); }
                                        }
                                    }
                                }
                            }
                            let rank = |set: &BTreeSet<usize>| -> BTreeSet<usize> {
                                let mut v: Vec<(usize, [u8; 32])> = set.iter().map(|x| (*x, dir.pos_tid[*x])).collect();
                                v.push((a, dir.pos_self[a]));
                                v.sort_by_key(|(_, p)| xor(p, &key));
                                v.truncate(k_rep);
                                v.into_iter().map(|(x, _)| x).filter(|x| *x != a).collect()
                            };
                            let (ws, wl) = (rank(&strict), rank(&lenient));
                            if reported != ws && reported != wl {
                                ctx.violate("C03.put.targets_differ_from_lookup_result", "", format!("op #{idx}: put at node {a} (K={k_rep}) targeted nodes {reported:?}; the remote members of its own lookup result are {ws:?}"));
                            }
                        }
                    }
                }
                "get" => {
                    let a = (op["node"].as_u64().unwrap_or(0) as usize) % n;
                    if silent.contains(&a) { continue; }
                    let local0 = nodes[a].manager.find_closest_nodes_local(&key, 6).await;
                    let res = tokio::time::timeout(b_op, nodes[a].manager.get(&key)).await;
                    ctx.sim_ms += net.now_ms() - t0;
                    let frames = net.frames_since(seq0);
                    let res = match res {
                        Err(_) => { ctx.violate("C03.op.did_not_return", "get", format!("op #{idx} get at node {a} did not return within {b_op:?}")); continue; }
                        Ok(Err(e)) => { ev!("#{idx} get node={a} k{kid} -> err {e}"); continue; }
                        Ok(Ok(r)) => r,
                    };
                    let reqs: BTreeMap<String, (usize, u64)> = frames.iter().filter(|f| f.from == a && f.dht.as_ref().map(|m| matches!(m.message_type, DhtMessageType::Request) && matches!(&m.payload, DhtNetworkOperation::FindValue { key: k } | DhtNetworkOperation::Get { key: k } if *k == key)).unwrap_or(false)).map(|f| (f.dht.as_ref().unwrap().message_id.clone(), (f.to, f.t_ms))).collect();
                    let queried: BTreeSet<usize> = reqs.values().map(|(t, _)| *t).collect();
                    match res {
                        DhtNetworkResult::GetSuccess { value, source, .. } => {
                            ev!("#{idx} get node={a} k{kid} -> {} bytes from {}", value.len(), dir.ids.get(&source).map(|x| x.to_string()).unwrap_or_else(|| "?".into()));
                            if remote_put_done { ctx.nontrivial = true; }
                            let under_key = issued.get(&kid).map(|v| v.contains(&value)).unwrap_or(false);
                            if !under_key {
                                let other = issued.iter().any(|(k2, v)| *k2 != kid && v.contains(&value));
                                ctx.violate(if other { "C03.get.value_of_another_key" } else { "C03.get.value_never_stored" }, "", format!("op #{idx}: get(k{kid}) at node {a} returned {} bytes that no put stored under that key", value.len()));
                            }
                            // the serving node was reached: local store had it before, or a reply frame carried it
                            let from_reply = frames.iter().any(|f| f.to == a && f.fate == Fate::Delivered && f.dht.as_ref().map(|m| matches!(&m.result, Some(DhtNetworkResult::ValueFound { value: v, .. }) | Some(DhtNetworkResult::GetSuccess { value: v, .. }) if *v == value) && reqs.get(&m.message_id).map(|(to, _)| *to == f.from).unwrap_or(false)).unwrap_or(false));
                            if !from_reply && !reqs.is_empty() && !under_key {
                                ctx.violate("C03.get.value_from_nowhere", "", format!("op #{idx}: value returned although no contacted peer sent it"));
                            }
                        }
                        DhtNetworkResult::GetNotFound { .. } => {
                            ev!("#{idx} get node={a} k{kid} -> not found after {} requests", reqs.len());
                            // every peer it learned of was queried or failed, or the budget ran out
                            let mut learned: BTreeSet<usize> = local0.iter().filter_map(|d| dir.ids.get(&d.peer_id).copied()).collect();
                            for f in frames.iter().filter(|f| f.to == a && f.fate == Fate::Delivered) {
                                if let Some(m) = f.dht.as_ref() {
                                    if let (Some((to, t)), Some(DhtNetworkResult::NodesFound { nodes: ns, .. })) = (reqs.get(&m.message_id), m.result.as_ref()) {
                                        if *to == f.from && f.deliver_ms + 3 <= t + timeout_ms {
                                            for d in ns { if let Some(x) = dir.ids.get(&d.peer_id) { learned.insert(*x); } }
                                        }
                                    }
                                }
                            }
                            let dial_failed: BTreeSet<usize> = net.dials().iter().filter(|(t, from, _, target, ok)| *from == a && *t >= t0 && target.map(|x| !*ok || !net.connected(nodes[a].idx, x)).unwrap_or(false)).filter_map(|d| d.3).collect();
                            if reqs.len() < 60 {
                                if let Some(x) = learned.iter().find(|x| **x != a && !queried.contains(x) && !dial_failed.contains(x)) {
                                    ctx.violate("C03.get.not_found_before_all_learned_peers_were_asked", if sc["fault_free"].as_bool().unwrap_or(false) { "fault_free" } else { "faults" }, format!("op #{idx}: get(k{kid}) at node {a} reported not-found after {} requests although node {x}, which it had learned of, was never asked", reqs.len()));
                                }
                            }
                            // a value held by a responsive node that was asked must have been returned: covered by the reply clause above
                        }
                        other => { ev!("#{idx} get -> {}", simnet::result_name(&other)); }
                    }
                }
                "forged_put" => {
                    // a stub connects to the victim and sends a PUT frame directly
                    let v = (op["victim"].as_u64().unwrap_or(0) as usize) % n;
                    let len = op["len"].as_u64().unwrap_or(600) as usize;
                    let value = value_for(seed ^ 0xf0, idx, len);
                    let _ = nodes[v].transport.verif_accept(&stub_tid, "10.222.0.1:7000".parse().unwrap()).await;
                    tokio::time::sleep(Duration::from_millis(20)).await;
                    let msg = DhtNetworkMessage { message_id: format!("forged-{idx}"), source: stub_tid.clone(), target: Some(tids[v].clone()), message_type: DhtMessageType::Request,
                        payload: DhtNetworkOperation::Put { key, value: value.clone() }, result: None, timestamp: now_secs(), ttl: 10, hop_count: 0 };
                    let frame = verif_hooks::encode_wire("/dht/1.0.0", postcard::to_stdvec(&msg).unwrap_or_default(), &stub_tid, now_secs());
                    net.inject(stub_idx, nodes[v].idx, frame, 0);
                    tokio::time::sleep(Duration::from_millis(300)).await;
                    ctx.fault("forged_put_frame");
                    if len <= 512 { issued.entry(kid).or_default().push(value.clone()); }
                    let held = nodes[v].manager.get_local(&key).await.ok().flatten();
                    ev!("#{idx} forged_put victim={v} len={len} -> held {:?}", held.as_ref().map(|h| h.len()));
                    if len > 512 && held.as_deref() == Some(&value[..]) {
                        ctx.violate("C03.size.oversized_value_stored_by_remote_put", "", format!("op #{idx}: node {v} stored a {len}-byte value from a direct PUT frame"));
                    }
                }
                _ => {}
            }
        }
        // ---- end of run: no store holds a value over 512 bytes or a pair no put issued
        for (x, nd) in nodes.iter().enumerate() {
            let dht = nd.manager.verif_dht();
            let entries = dht.read().await.verif_store_entries().await;
            for (k, v) in entries {
                if v.len() > 512 {
                    ctx.violate("C03.size.store_holds_oversized_value", "", format!("node {x} holds a {}-byte value", v.len()));
                }
                let kid = (0..8u64).find(|i| key_bytes(*i) == *k.as_bytes());
                let ok = kid.and_then(|i| issued.get(&i)).map(|vals| vals.contains(&v)).unwrap_or(false);
                if !ok {
                    ctx.violate("C03.store.holds_pair_no_put_issued", "", format!("node {x} holds ({:?}, {} bytes) which no put issued", kid, v.len()));
                }
            }
        }
        for (k, v) in net.fired() { for _ in 0..v { ctx.fault(&k); } }
        net.shutdown();
    });
    drop(rt);
    ctx.finish()
}
