//! One module per property.

use crate::simkit::CheckDef;

pub mod c09;
pub mod c10;
pub mod c11;

pub fn all() -> Vec<&'static CheckDef> {
    vec![&c09::DEF, &c10::DEF, &c11::DEF]
}

pub fn lookup(id: &str) -> Option<&'static CheckDef> {
    all().into_iter().find(|d| d.id.eq_ignore_ascii_case(id))
}
