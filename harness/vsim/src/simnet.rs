//! SIM-NET: an in-memory network for real `TransportHandle` + `DhtNetworkManager`
//! instances inside one current-thread tokio runtime with the clock paused.
//!
//! The only transport the nodes see is this one: `send_message` frames leave
//! through the `SimNet` seam after the real wire framing and re-enter the
//! destination through the real receive loop (`verif_deliver`). Latency of the
//! n-th message on a directed link is a stateless hash of (net seed, link, n), so
//! removing an operation or a fault does not re-randomise the rest. Every frame is
//! recorded (decoded) in a trace that the oracles read.

use crate::simkit::rng::mix;
use saorsa_core::adaptive::EigenTrustEngine;
use saorsa_core::dht_network_manager::{
    DhtMessageType, DhtNetworkConfig, DhtNetworkManager, DhtNetworkMessage, DhtNetworkOperation, DhtNetworkResult,
};
use saorsa_core::network::NodeConfig;
use saorsa_core::transport_handle::TransportHandle;
use saorsa_core::verif_hooks::{self, SimNet};
use std::collections::{BTreeMap, BTreeSet, HashMap, HashSet};
use std::net::SocketAddr;
use std::sync::{Arc, Mutex};
use std::time::Duration;
use tokio::sync::mpsc;

/// One frame seen at the transport seam.
#[derive(Clone, Debug)]
pub struct Frame {
    pub seq: u64,
    pub t_ms: u64,
    pub from: usize,
    pub to: usize,
    pub protocol: String,
    /// decoded DHT message, when the frame carries one
    pub dht: Option<DhtNetworkMessage>,
    /// decoded /rr/ envelope: (message id, is_response, payload)
    pub rr: Option<(String, bool, Vec<u8>)>,
    pub len: usize,
    /// what the network did with it
    pub fate: Fate,
    /// simulated time at which the (first copy of the) frame reaches the receiver
    pub deliver_ms: u64,
}

#[derive(Clone, Debug, PartialEq, Eq)]
pub enum Fate {
    Delivered,
    Dropped(&'static str),
    SendError,
}

#[derive(Clone, Debug, Default)]
pub struct FaultPlan {
    /// (from, to, nth message on that link) -> fault kind: "drop" | "dup" | "delay" | "late" | "send_error"
    pub on_message: BTreeMap<(usize, usize, u64), String>,
    /// node -> (silent from ms, until ms)
    pub silence: BTreeMap<usize, (u64, u64)>,
    /// node -> latency multiplier
    pub slow: BTreeMap<usize, u64>,
    /// dial faults: (from, to) -> "refuse" | "blackhole"
    pub dial: BTreeMap<(usize, usize), String>,
    /// partition: set A cannot talk to the rest during [from, until)
    pub partition: Option<(BTreeSet<usize>, u64, u64)>,
}

enum Slot {
    Real { transport: Arc<TransportHandle> },
    Stub { inbox: mpsc::UnboundedSender<(usize, Vec<u8>)> },
    Gone,
}

struct Inner {
    /// frames are kept for the oracles unless a scenario measures retained memory
    record: bool,
    slots: Vec<Slot>,
    tids: Vec<String>,
    addrs: Vec<SocketAddr>,
    by_tid: HashMap<String, usize>,
    by_addr: HashMap<SocketAddr, usize>,
    conns: HashSet<(usize, usize)>,
    link_counter: HashMap<(usize, usize), u64>,
    faults: FaultPlan,
    frames: Vec<Frame>,
    fired: BTreeMap<String, u64>,
    dials: Vec<(u64, usize, SocketAddr, Option<usize>, bool)>, // (t, from, addr, resolved target, ok)
    seq: u64,
    /// scenario-specific fate chooser for frames sent by real nodes: "drop" | "dup" | "late" | "delay"
    filter: Option<Arc<dyn Fn(&Frame) -> Option<String> + Send + Sync>>,
}

pub struct SimNetwork {
    inner: Mutex<Inner>,
    seed: u64,
    t0: tokio::time::Instant,
    pub base_latency_ms: u64,
    pub jitter_ms: u64,
}

impl SimNetwork {
    pub fn new(seed: u64, base_latency_ms: u64, jitter_ms: u64, faults: FaultPlan) -> Arc<Self> {
        Arc::new(SimNetwork {
            inner: Mutex::new(Inner {
                record: true, slots: Vec::new(),
                tids: Vec::new(),
                addrs: Vec::new(),
                by_tid: HashMap::new(),
                by_addr: HashMap::new(),
                conns: HashSet::new(),
                link_counter: HashMap::new(),
                faults,
                frames: Vec::new(),
                fired: BTreeMap::new(),
                dials: Vec::new(),
                seq: 0,
                filter: None,
            }),
            seed,
            t0: tokio::time::Instant::now(),
            base_latency_ms,
            jitter_ms,
        })
    }

    pub fn now_ms(&self) -> u64 {
        self.t0.elapsed().as_millis() as u64
    }

    fn reserve(&self, tid: &str, addr: SocketAddr) -> usize {
        let mut g = self.inner.lock().unwrap();
        let idx = g.slots.len();
        g.slots.push(Slot::Gone);
        g.tids.push(tid.to_string());
        g.addrs.push(addr);
        g.by_tid.insert(tid.to_string(), idx);
        g.by_addr.insert(addr, idx);
        idx
    }

    pub fn attach_real(&self, idx: usize, transport: Arc<TransportHandle>) {
        self.inner.lock().unwrap().slots[idx] = Slot::Real { transport };
    }

    pub fn add_stub(&self, tid: &str, addr: SocketAddr) -> (usize, mpsc::UnboundedReceiver<(usize, Vec<u8>)>) {
        let idx = self.reserve(tid, addr);
        let (tx, rx) = mpsc::unbounded_channel();
        self.inner.lock().unwrap().slots[idx] = Slot::Stub { inbox: tx };
        (idx, rx)
    }

    pub fn tid(&self, idx: usize) -> String {
        self.inner.lock().unwrap().tids[idx].clone()
    }
    pub fn addr(&self, idx: usize) -> SocketAddr {
        self.inner.lock().unwrap().addrs[idx]
    }
    pub fn idx_of_tid(&self, tid: &str) -> Option<usize> {
        self.inner.lock().unwrap().by_tid.get(tid).copied()
    }
    pub fn idx_of_addr(&self, a: &SocketAddr) -> Option<usize> {
        self.inner.lock().unwrap().by_addr.get(a).copied()
    }
    /// Stop (or resume) keeping frames; used while retained memory is measured.
    pub fn set_recording(&self, on: bool) {
        self.inner.lock().unwrap().record = on;
    }
    pub fn frames(&self) -> Vec<Frame> {
        self.inner.lock().unwrap().frames.clone()
    }
    pub fn frames_since(&self, seq: u64) -> Vec<Frame> {
        self.inner.lock().unwrap().frames.iter().filter(|f| f.seq >= seq).cloned().collect()
    }
    pub fn next_seq(&self) -> u64 {
        self.inner.lock().unwrap().seq
    }
    pub fn fired(&self) -> BTreeMap<String, u64> {
        self.inner.lock().unwrap().fired.clone()
    }
    pub fn dials(&self) -> Vec<(u64, usize, SocketAddr, Option<usize>, bool)> {
        self.inner.lock().unwrap().dials.clone()
    }
    pub fn set_silence(&self, node: usize, from_ms: u64, until_ms: u64) {
        self.inner.lock().unwrap().faults.silence.insert(node, (from_ms, until_ms));
    }
    /// Arm dial and per-message faults once set-up is over; message ordinals count from here.
    pub fn arm(&self, dial: BTreeMap<(usize, usize), String>, on_message: BTreeMap<(usize, usize, u64), String>) {
        let mut g = self.inner.lock().unwrap();
        g.faults.dial = dial;
        g.faults.on_message = on_message;
        g.link_counter.clear();
    }
    /// Register a connection between two slots without a dial (stub that "dialled in").
    pub fn link(&self, a: usize, b: usize) {
        self.inner.lock().unwrap().conns.insert((a.min(b), a.max(b)));
    }
    pub fn set_filter(&self, f: Arc<dyn Fn(&Frame) -> Option<String> + Send + Sync>) {
        self.inner.lock().unwrap().filter = Some(f);
    }
    pub fn connected(&self, a: usize, b: usize) -> bool {
        let g = self.inner.lock().unwrap();
        g.conns.contains(&(a.min(b), a.max(b)))
    }

    /// Break reference cycles at the end of a run.
    pub fn shutdown(&self) {
        let mut g = self.inner.lock().unwrap();
        for s in g.slots.iter_mut() {
            *s = Slot::Gone;
        }
    }

    fn silent(g: &Inner, node: usize, now: u64) -> bool {
        g.faults.silence.get(&node).map(|(f, u)| now >= *f && now < *u).unwrap_or(false)
    }
    fn partitioned(g: &Inner, a: usize, b: usize, now: u64) -> bool {
        match &g.faults.partition {
            Some((set, f, u)) if now >= *f && now < *u => set.contains(&a) != set.contains(&b),
            _ => false,
        }
    }

    fn latency(&self, g: &Inner, a: usize, b: usize, n: u64) -> u64 {
        let h = mix(&[self.seed, a as u64, b as u64, n]);
        let mut l = self.base_latency_ms + if self.jitter_ms > 0 { h % (self.jitter_ms + 1) } else { 0 };
        l *= g.faults.slow.get(&a).copied().unwrap_or(1).max(1);
        l *= g.faults.slow.get(&b).copied().unwrap_or(1).max(1);
        l.max(1)
    }

    /// Inject a frame as if `from` had sent it on its connection to `to` (used by stubs and forgers).
    /// `claimed_from_tid`: the connection identity the receiver will see.
    pub fn inject(self: &Arc<Self>, from: usize, to: usize, frame: Vec<u8>, extra_delay_ms: u64) {
        let me = self.clone();
        let (lat, target) = {
            let mut g = self.inner.lock().unwrap();
            let n = { let c = g.link_counter.entry((from, to)).or_insert(0); *c += 1; *c };
            let lat = self.latency(&g, from, to, n) + extra_delay_ms;
            let now = self.now_ms();
            let seq = g.seq;
            g.seq += 1;
            let (protocol, dht, rr) = decode(&frame);
            if g.record { g.frames.push(Frame { seq, t_ms: now, from, to, protocol, dht, rr, len: frame.len(), fate: Fate::Delivered, deliver_ms: now + lat }); }
            (lat, to)
        };
        tokio::spawn(async move {
            tokio::time::sleep(Duration::from_millis(lat)).await;
            me.deliver_now(from, target, frame);
        });
    }

    fn deliver_now(&self, from: usize, to: usize, frame: Vec<u8>) {
        let now = self.now_ms();
        let (slot_real, slot_stub, from_tid) = {
            let g = self.inner.lock().unwrap();
            if Self::silent(&g, to, now) {
                return;
            }
            match &g.slots[to] {
                Slot::Real { transport } => (Some(transport.clone()), None, g.tids[from].clone()),
                Slot::Stub { inbox } => (None, Some(inbox.clone()), g.tids[from].clone()),
                Slot::Gone => (None, None, String::new()),
            }
        };
        if let Some(t) = slot_real {
            let _ = t.verif_deliver(&from_tid, frame);
        } else if let Some(tx) = slot_stub {
            let _ = tx.send((from, frame));
        }
    }

    fn fire(g: &mut Inner, kind: &str) {
        *g.fired.entry(kind.to_string()).or_insert(0) += 1;
    }
}

pub fn decode(frame: &[u8]) -> (String, Option<DhtNetworkMessage>, Option<(String, bool, Vec<u8>)>) {
    match verif_hooks::decode_wire(frame) {
        Some((protocol, data, _from, _ts)) => {
            let dht = if protocol == "/dht/1.0.0" { postcard::from_bytes::<DhtNetworkMessage>(&data).ok() } else { None };
            let rr = if protocol.starts_with("/rr/") { verif_hooks::decode_envelope(&data) } else { None };
            (protocol, dht, rr)
        }
        None => ("<undecodable>".to_string(), None, None),
    }
}

#[async_trait::async_trait]
impl SimNet for SimNetwork {
    async fn dial(&self, from: &str, addr: SocketAddr) -> Result<String, String> {
        let (from_idx, target, fault, lat, from_addr) = {
            let mut g = self.inner.lock().unwrap();
            let from_idx = *g.by_tid.get(from).ok_or("unknown dialer")?;
            let target = g.by_addr.get(&addr).copied();
            let now = self.now_ms();
            let mut fault = target.and_then(|t| g.faults.dial.get(&(from_idx, t)).cloned());
            if let Some(t) = target {
                if Self::silent(&g, t, now) || Self::silent(&g, from_idx, now) || Self::partitioned(&g, from_idx, t, now) {
                    fault = Some("blackhole".into());
                }
            }
            let n = { let c = g.link_counter.entry((from_idx, usize::MAX)).or_insert(0); *c += 1; *c };
            let lat = target.map(|t| self.latency(&g, from_idx, t, n)).unwrap_or(1);
            if let Some(f) = &fault { Self::fire(&mut g, &format!("dial_{f}")); }
            let ok = target.is_some() && fault.is_none();
            g.dials.push((now, from_idx, addr, target, ok));
            (from_idx, target, fault, lat, g.addrs[from_idx])
        };
        let Some(target) = target else {
            tokio::time::sleep(Duration::from_millis(1)).await;
            return Err(format!("connection refused: nobody listens on {addr}"));
        };
        match fault.as_deref() {
            Some("refuse") => {
                tokio::time::sleep(Duration::from_millis(lat)).await;
                return Err("connection refused".into());
            }
            Some(_) => {
                // black hole: never completes; the caller's connection timeout ends it
                std::future::pending::<()>().await;
            }
            None => {}
        }
        tokio::time::sleep(Duration::from_millis(2 * lat)).await; // handshake round trip
        if target == from_idx {
            return Ok(self.tid(from_idx));
        }
        let (slot, tid) = {
            let mut g = self.inner.lock().unwrap();
            g.conns.insert((from_idx.min(target), from_idx.max(target)));
            let slot = match &g.slots[target] { Slot::Real { transport } => Some(transport.clone()), _ => None };
            (slot, g.tids[target].clone())
        };
        if let Some(t) = slot {
            let from_tid = from.to_string();
            // the accept side runs concurrently with the dialer's registration, as on a real socket
            tokio::spawn(async move {
                let _ = t.verif_accept(&from_tid, from_addr).await;
            });
        }
        Ok(tid)
    }

    async fn send(&self, from: &str, to: &str, frame: Vec<u8>) -> Result<(), String> {
        let now = self.now_ms();
        let plan = {
            let mut g = self.inner.lock().unwrap();
            let from_idx = *g.by_tid.get(from).ok_or("unknown sender")?;
            let Some(&to_idx) = g.by_tid.get(to) else { return Err(format!("no route to {to}")) };
            let n = { let c = g.link_counter.entry((from_idx, to_idx)).or_insert(0); *c += 1; *c };
            let seq = g.seq;
            g.seq += 1;
            let (protocol, dht, rr) = decode(&frame);
            let connected = g.conns.contains(&(from_idx.min(to_idx), from_idx.max(to_idx)));
            let mut fault = g.faults.on_message.get(&(from_idx, to_idx, n)).cloned();
            if fault.is_none() {
                if let Some(f) = g.filter.clone() {
                    let probe = Frame { seq, t_ms: now, from: from_idx, to: to_idx, protocol: protocol.clone(), dht: dht.clone(), rr: rr.clone(), len: frame.len(), fate: Fate::Delivered, deliver_ms: now };
                    fault = f(&probe);
                }
            }
            let mut fate = Fate::Delivered;
            let mut extra = 0u64;
            let mut dup = false;
            if !connected {
                fate = Fate::SendError;
            } else if Self::silent(&g, from_idx, now) {
                fate = Fate::Dropped("sender_silent");
                Self::fire(&mut g, "silence");
            } else if Self::silent(&g, to_idx, now) {
                fate = Fate::Dropped("receiver_silent");
                Self::fire(&mut g, "silence");
            } else if Self::partitioned(&g, from_idx, to_idx, now) {
                fate = Fate::Dropped("partition");
                Self::fire(&mut g, "partition");
            } else {
                match fault.as_deref() {
                    Some("drop") => { fate = Fate::Dropped("drop"); Self::fire(&mut g, "drop"); }
                    Some("send_error") => { fate = Fate::SendError; Self::fire(&mut g, "send_error"); }
                    Some("dup") => { dup = true; Self::fire(&mut g, "duplicate"); }
                    Some("delay") => { extra = 200 + mix(&[self.seed, seq]) % 800; Self::fire(&mut g, "delay"); }
                    Some("late") => { extra = 400_000; Self::fire(&mut g, "delivered_after_timeout"); }
                    Some(x) if x.starts_with("slow:") => { extra = x[5..].parse().unwrap_or(0); Self::fire(&mut g, "slow_reply"); }
                    _ => {}
                }
            }
            let lat = self.latency(&g, from_idx, to_idx, n) + extra;
            if g.record { g.frames.push(Frame { seq, t_ms: now, from: from_idx, to: to_idx, protocol, dht, rr, len: frame.len(), fate: fate.clone(), deliver_ms: now + lat }); }
            (from_idx, to_idx, fate, lat, dup)
        };
        let (from_idx, to_idx, fate, lat, dup) = plan;
        match fate {
            Fate::SendError => Err("stream error (simulated)".into()),
            Fate::Dropped(_) => Ok(()),
            Fate::Delivered => {
                // `self` is inside an Arc owned by the transport handle; deliveries use a
                // detached task holding what it needs
                let slot = {
                    let g = self.inner.lock().unwrap();
                    match &g.slots[to_idx] {
                        Slot::Real { transport } => Some(Ok(transport.clone())),
                        Slot::Stub { inbox } => Some(Err(inbox.clone())),
                        Slot::Gone => None,
                    }
                };
                let from_tid = from.to_string();
                let copies = if dup { 2 } else { 1 };
                for c in 0..copies {
                    let slot = slot.clone();
                    let frame = frame.clone();
                    let from_tid = from_tid.clone();
                    let delay = lat * (c + 1);
                    tokio::spawn(async move {
                        tokio::time::sleep(Duration::from_millis(delay)).await;
                        match slot {
                            Some(Ok(t)) => { let _ = t.verif_deliver(&from_tid, frame); }
                            Some(Err(tx)) => { let _ = tx.send((from_idx, frame)); }
                            None => {}
                        }
                    });
                }
                Ok(())
            }
        }
    }

    async fn disconnect(&self, from: &str, to: &str) {
        let (slot, from_tid, lat) = {
            let mut g = self.inner.lock().unwrap();
            let (Some(&a), Some(&b)) = (g.by_tid.get(from), g.by_tid.get(to)) else { return };
            g.conns.remove(&(a.min(b), a.max(b)));
            let slot = match &g.slots[b] { Slot::Real { transport } => Some(transport.clone()), _ => None };
            (slot, from.to_string(), self.latency(&g, a, b, 0))
        };
        if let Some(t) = slot {
            tokio::spawn(async move {
                tokio::time::sleep(Duration::from_millis(lat)).await;
                t.verif_connection_lost(&from_tid).await;
            });
        }
    }
}

/// A real node inside the simulation.
pub struct SimNode {
    pub idx: usize,
    pub tid: String,
    pub app_id: String,
    pub addr: SocketAddr,
    pub transport: Arc<TransportHandle>,
    pub manager: Arc<DhtNetworkManager>,
    pub trust: Option<Arc<EigenTrustEngine>>,
}

pub struct NodeSpec {
    pub tid: [u8; 32],
    /// application-level peer id; None = same as the transport id (configuration (a))
    pub app_id: Option<String>,
    pub addr: SocketAddr,
    pub k: usize,
    pub request_timeout: Duration,
    pub connection_timeout: Duration,
    pub with_trust: bool,
}

pub async fn build_node(net: &Arc<SimNetwork>, spec: NodeSpec) -> Result<SimNode, String> {
    let tid = hex::encode(spec.tid);
    let app_id = spec.app_id.clone().unwrap_or_else(|| tid.clone());
    let idx = net.reserve(&tid, spec.addr);
    let as_dyn: Arc<dyn SimNet> = net.clone();
    let transport = Arc::new(TransportHandle::verif_new(app_id.clone(), tid.clone(), as_dyn, spec.connection_timeout, 4096));
    net.attach_real(idx, transport.clone());
    transport.verif_start(spec.addr).await.map_err(|e| format!("{e}"))?;
    let trust = if spec.with_trust { Some(Arc::new(EigenTrustEngine::new(HashSet::new()))) } else { None };
    let mut node_config = NodeConfig::new().map_err(|e| format!("{e}"))?;
    node_config.listen_addr = spec.addr;
    node_config.listen_addrs = vec![spec.addr];
    node_config.connection_timeout = spec.connection_timeout;
    node_config.peer_id = Some(app_id.clone());
    let cfg = DhtNetworkConfig {
        local_peer_id: app_id.clone(),
        dht_config: saorsa_core::dht::DHTConfig::default(),
        node_config,
        request_timeout: spec.request_timeout,
        max_concurrent_operations: 256,
        replication_factor: spec.k,
        enable_security: true,
    };
    let manager = Arc::new(DhtNetworkManager::new(transport.clone(), trust.clone(), cfg).await.map_err(|e| format!("{e}"))?);
    manager.start().await.map_err(|e| format!("{e}"))?;
    Ok(SimNode { idx, tid, app_id, addr: spec.addr, transport, manager, trust })
}

/// Summary of a DHT frame for logs / oracles.
pub fn op_name(op: &DhtNetworkOperation) -> &'static str {
    match op {
        DhtNetworkOperation::Put { .. } => "PUT",
        DhtNetworkOperation::Get { .. } => "GET",
        DhtNetworkOperation::FindNode { .. } => "FIND_NODE",
        DhtNetworkOperation::FindValue { .. } => "FIND_VALUE",
        DhtNetworkOperation::Ping => "PING",
        DhtNetworkOperation::Join => "JOIN",
        DhtNetworkOperation::Leave => "LEAVE",
    }
}

pub fn is_request(m: &DhtNetworkMessage) -> bool {
    matches!(m.message_type, DhtMessageType::Request)
}
pub fn is_response(m: &DhtNetworkMessage) -> bool {
    matches!(m.message_type, DhtMessageType::Response)
}

pub fn result_name(r: &DhtNetworkResult) -> &'static str {
    match r {
        DhtNetworkResult::PutSuccess { .. } => "PutSuccess",
        DhtNetworkResult::GetSuccess { .. } => "GetSuccess",
        DhtNetworkResult::GetNotFound { .. } => "GetNotFound",
        DhtNetworkResult::NodesFound { .. } => "NodesFound",
        DhtNetworkResult::ValueFound { .. } => "ValueFound",
        DhtNetworkResult::PongReceived { .. } => "Pong",
        DhtNetworkResult::JoinSuccess { .. } => "JoinSuccess",
        DhtNetworkResult::LeaveSuccess => "LeaveSuccess",
        DhtNetworkResult::Error { .. } => "Error",
    }
}
