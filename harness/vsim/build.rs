fn main() {
    // Export the binary's `getrandom` so that libstd's weak-symbol lookup finds it.
    println!("cargo:rustc-link-arg-bins=-rdynamic");
}
