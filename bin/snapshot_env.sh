# source me inside a `vp run --with-repo` snapshot: points the harness at the private copy of /repo
# ($VP_RUN_REPO) and at this snapshot of /verif, so that neither /repo nor /verif is touched.
HERE="$(cd "$(dirname "${BASH_SOURCE[0]}")/.." && pwd)"
REPO="${VP_RUN_REPO:?needs vp run --with-repo}"
cp /repo/Cargo.lock "$REPO/Cargo.lock" 2>/dev/null
sed -i "s#path = \"/repo\"#path = \"$REPO\"#" "$HERE/harness/vsim/Cargo.toml" "$HERE/harness/vshuttle/Cargo.toml"
export VERIF_REPO="$REPO" VERIF_ROOT="$HERE" CARGO_NET_OFFLINE=true
cd "$HERE"
