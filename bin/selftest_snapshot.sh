#!/bin/bash
# Sensitivity self-test on a private copy: meant for `vp run --with-repo -- bin/selftest_snapshot.sh [ID-prefix]`.
# Works in the snapshot of /verif it is started in and on the snapshot of /repo in $VP_RUN_REPO, so it
# disturbs neither /verif nor /repo. Cold-builds its own harness (about 12 min) first.
set -u
HERE="$(cd "$(dirname "$0")/.." && pwd)"
REPO="${VP_RUN_REPO:?needs --with-repo}"
cd "$HERE" || exit 2
cp /repo/Cargo.lock "$REPO/Cargo.lock" 2>/dev/null
sed -i "s#path = \"/repo\"#path = \"$REPO\"#" harness/vsim/Cargo.toml harness/vshuttle/Cargo.toml
export VERIF_REPO="$REPO" VERIF_ROOT="$HERE" CARGO_NET_OFFLINE=true
pat="${1:-}"
fail=0
for f in selftest/${pat}*.diff seeded/${pat}*/patch.diff; do
  [ -f "$f" ] || continue
  case "$f" in selftest/*) id=$(basename "$f" | cut -d- -f1);; *) id=$(basename "$(dirname "$f")" | cut -d- -f1);; esac
  if ! git -C "$REPO" apply --check "$HERE/$f" 2>/dev/null; then echo "SKIP $f (does not apply)"; continue; fi
  git -C "$REPO" apply "$HERE/$f"
  out=$(bin/check "$id" quick 2>&1); rc=$?
  git -C "$REPO" checkout -- .
  if [ $rc -eq 1 ] && echo "$out" | grep -q "^VIOLATION property=$id"; then
    echo "CAUGHT $f: $(echo "$out" | grep -m1 '^violation class' | cut -c1-160)"
  else
    echo "MISSED $f rc=$rc"; fail=1
  fi
done
# and the unchanged tree must be silent
for id in C01 C02 C03 C04 C05 C06 C07 C09 C10 C11 C12 C13 C14 C16 C18 C19 C20; do
  case "$id" in ${pat}*) ;; *) continue;; esac
  out=$(bin/check "$id" quick 2>&1); rc=$?
  echo "UNCHANGED $id rc=$rc $(echo "$out" | grep -c '^VIOLATION') violation lines"
  [ $rc -eq 0 ] || fail=1
done
exit $fail
