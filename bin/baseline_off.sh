#!/bin/bash
# Runs the repository's own suite with the verif-hooks guard OFF (default features)
# and compares against the stable-pass list of /root/.vp/BASELINE.json.
# exit 0 iff every stable-pass test passed.
set -u
export CARGO_NET_OFFLINE=true
cd /repo || exit 2
if cargo nextest --version >/dev/null 2>&1 && [ -f /w/lib/nextest.toml ]; then
  cargo nextest run --workspace --no-fail-fast --tool-config-file pb:/w/lib/nextest.toml --profile pb --test-threads 8 --offline >/tmp/verif-baseline.log 2>&1
  J=/repo/target/nextest/pb/junit.xml
  python3 - "$J" <<'PY'
import json,sys,xml.etree.ElementTree as ET
base=json.load(open('/root/.vp/BASELINE.json'))
stable=set(base['stable_pass'])
root=ET.parse(sys.argv[1]).getroot()
passed=set();failed=set()
for tc in root.iter('testcase'):
    tid=(tc.get('classname') or '')+'::'+(tc.get('name') or '')
    if tc.find('failure') is not None or tc.find('error') is not None or tc.find('flakyFailure') is not None or tc.find('rerunFailure') is not None: failed.add(tid)
    elif tc.find('skipped') is not None: pass
    else: passed.add(tid)
passed-=failed
missing=sorted(stable-passed)
print(f"stable_pass={len(stable)} passed_now={len(passed)} failed_now={len(failed)} stable_not_passing={len(missing)}")
# A stable test that failed inside the loaded full run is re-run alone, serially, before it
# counts as failing (the suite has millisecond-timing tests that fail under CPU contention).
import subprocess
still=[]
for m in missing[:50]:
    parts=m.split('::')
    name='::'.join(parts[2:]) if len(parts)>2 and parts[1] not in ('',) else parts[-1]
    cands=['::'.join(parts[1:]), '::'.join(parts[2:])]
    ok=False
    for c in cands:
        if not c: continue
        r=subprocess.run(['cargo','nextest','run','--offline','--test-threads','1','-E',f'test(={c})'],cwd='/repo',capture_output=True,text=True)
        if r.returncode==0 and ' 1 passed' in (r.stdout+r.stderr):
            ok=True; break
    print(("  PASSED WHEN RE-RUN ALONE: " if ok else "  NOT PASSING: ")+m)
    if not ok: still.append(m)
sys.exit(0 if not still else 1)
PY
else
  cargo test --workspace --no-fail-fast --offline
fi
