#!/usr/bin/env python3
"""Regenerates commit references in /verif from /repo's history:
 - known_findings.json 'fixed' entries from fixed_defects.json (commit subjects -> current hashes)
 - MANIFEST.json hooks.source_commits = all commits whose subject starts with 'verif-hooks:'"""
import json, subprocess
log = subprocess.check_output(['git', '-C', '/repo', 'log', '--reverse', '--format=%h\t%s', '742ce42..HEAD']).decode().strip().split('\n')
by_subject = {l.split('\t', 1)[1]: l.split('\t', 1)[0] for l in log}
fixed = json.load(open('/verif/fixed_defects.json'))
out = []
for f in fixed:
    hashes = [by_subject.get(s, 'MISSING') for s in f['commit_subjects']]
    out.append(f"fixed: property={f['property']} {'+'.join(hashes)} {f['what']}")
k = json.load(open('/verif/known_findings.json'))
k['fixed'] = out
json.dump(k, open('/verif/known_findings.json', 'w'), indent=1)
m = json.load(open('/verif/MANIFEST.json'))
m['hooks']['source_commits'] = [h for (h, s) in (l.split('\t', 1) for l in log) if s.startswith('verif-hooks:')]
json.dump(m, open('/verif/MANIFEST.json', 'w'), indent=1)
missing = [o for o in out if 'MISSING' in o]
print(f"{len(out)} fixed entries, {len(m['hooks']['source_commits'])} hook commits, missing={len(missing)}")
