#!/bin/bash
# usage: bin/build.sh
# Builds the harness (vsim, vshuttle) against /repo's current working tree, hooks on.
# This is MANIFEST.setup_cmd and the first step of every bin/check.
# exit 0 = binaries are up to date; 2 = build failed (last lines of the log on stderr).
#
# The build directory harness/target is not under version control and survives
# between invocations, so this script does not trust it: rustc's incremental
# cache is not crash-safe (a rustc killed in the middle of a session, e.g. by a
# timeout or by the sandbox being snapshotted, can leave a cache whose reuse
# ends in "undefined hidden symbol" at link time, and a plain re-run of cargo
# keeps failing). So
#   1. a crate whose cache holds a session left in "-working" state is rebuilt
#      without that cache;
#   2. a failed build is retried once with all incremental caches and the
#      workspace crates' artifacts dropped (about 3 minutes on 16 cores);
#   3. if that still fails and the log shows no compiler diagnostic (error[E…]),
#      the whole build directory is dropped and built cold (about 12 minutes).
# A genuine compile error in /repo or the harness is reported after step 2.
set -u
ROOT="$(cd "$(dirname "$0")/.." && pwd)"
export CARGO_NET_OFFLINE=true
cd "$ROOT/harness" || exit 2
mkdir -p target
LOG="$ROOT/harness/target/last_build.log"

# one build at a time: the clean-up steps below must not run under another cargo
exec 9>"$ROOT/harness/target/.verif-build.lock"
flock 9

build() {
  cargo build --release --offline >"$LOG" 2>&1 &&
    [ -s target/release/vsim ] && [ -s target/release/vshuttle ]
}

INC="target/release/incremental"
for w in "$INC"/*/s-*-working; do
  [ -e "$w" ] || continue
  crate_dir="$(dirname "$w")"
  echo "build.sh: interrupted rustc session in $(basename "$crate_dir"); dropping that incremental cache" >&2
  rm -rf "$crate_dir"
done

build && exit 0

echo "build.sh: build failed; retrying without incremental caches" >&2
cp "$LOG" "$LOG.attempt1" 2>/dev/null
rm -rf "$INC"
cargo clean --release --offline -p vsim -p vshuttle -p saorsa-core >/dev/null 2>&1
build && exit 0

if ! grep -q '^error\[E' "$LOG"; then
  echo "build.sh: build failed again with no compiler diagnostic; rebuilding from an empty build directory" >&2
  cp "$LOG" "$LOG.attempt2" 2>/dev/null
  rm -rf target/release
  build && exit 0
fi

grep -v '^ *>>>' "$LOG" | cut -c1-400 | tail -40 >&2
echo "HARNESS-ERROR: build failed" >&2
exit 2
