#!/bin/bash
# usage: bin/build.sh
# Builds the harness (vsim, vshuttle) against /repo's current working tree, hooks on.
# This is MANIFEST.setup_cmd and the first step of every bin/check.
# exit 0 = binaries are up to date; 2 = build failed (last lines of the log on stderr).
#
# The build directory harness/target is not under version control and survives
# between invocations, so this script does not trust it: rustc's incremental
# cache is not crash-safe (a rustc killed in the middle of a session, e.g. by a
# timeout or by the sandbox being snapshotted, can leave a cache whose reuse
# ends in "undefined hidden symbol" at link time, and a plain re-run of cargo
# keeps failing). So
#   1. a crate whose cache holds a session left in "-working" state is rebuilt
#      without that cache;
#   2. a failed build is retried once with all incremental caches and the
#      workspace crates' artifacts dropped, on half the cores (about 5 minutes;
#      this also absorbs a transient failure such as a rustc out of memory);
#   3. if that still fails and the log shows damaged artifacts or a dead tool
#      (link failure, signal, ICE, out of memory, unreadable/invalid metadata),
#      the whole build directory is dropped and built cold (12 to 18 minutes).
# A genuine compile error in /repo or the harness is reported after step 2.
set -u
ROOT="$(cd "$(dirname "$0")/.." && pwd)"
export CARGO_NET_OFFLINE=true
cd "$ROOT/harness" || exit 2
mkdir -p target
LOG="$ROOT/harness/target/last_build.log"

# one build at a time: the clean-up steps below must not run under another cargo
exec 9>"$ROOT/harness/target/.verif-build.lock"
flock 9

# $1 = number of parallel jobs (empty: cargo's default, one per core)
build() {
  cargo build --release --offline ${1:+-j "$1"} >"$LOG" 2>&1 &&
    [ -s target/release/vsim ] && [ -s target/release/vshuttle ]
}
# the retries run with half the cores: a cold build from a clean clone was seen
# to lose one rustc to "LLVM ERROR: out of memory" on this 62 GB / no-swap VM
HALF=$(( ($(nproc 2>/dev/null || echo 2) + 1) / 2 ))

INC="target/release/incremental"
for w in "$INC"/*/s-*-working; do
  [ -e "$w" ] || continue
  crate_dir="$(dirname "$w")"
  echo "build.sh: interrupted rustc session in $(basename "$crate_dir"); dropping that incremental cache" >&2
  rm -rf "$crate_dir"
done

build && exit 0

echo "build.sh: build failed; retrying without incremental caches" >&2
cp "$LOG" "$LOG.attempt1" 2>/dev/null
rm -rf "$INC"
cargo clean --release --offline -p vsim -p vshuttle -p saorsa-core >/dev/null 2>&1
build "$HALF" && exit 0

# signs that artifacts on disk (not sources) are at fault, or that a tool died
DAMAGE='linking with .* failed|rust-lld: error|ld returned|\(signal: |internal compiler error|out of memory|Allocation failed|invalid metadata|E0460|E0461|E0463|E0464|E0786|failed to (read|load|open|mmap|parse)|No such file or directory|extern location for .* does not exist'
if grep -Eq "$DAMAGE" "$LOG"; then
  echo "build.sh: build failed again on damaged artifacts or a dead tool; rebuilding from an empty build directory" >&2
  cp "$LOG" "$LOG.attempt2" 2>/dev/null
  rm -rf target/release
  build "$HALF" && exit 0
fi

grep -v '^ *>>>' "$LOG" | cut -c1-400 | tail -40 >&2
echo "HARNESS-ERROR: build failed" >&2
exit 2
