#!/bin/bash
# Sensitivity self-test: apply each deliberate property-breaking change from
# /verif/selftest and /verif/seeded to /repo's working tree, run the quick check
# of its property, expect exit 1 with a VIOLATION line, then revert.
# Usage: bin/selftest.sh [ID-prefix]      (never leaves /repo modified)
set -u
cd /verif
pat="${1:-}"
fail=0
if ! git -C /repo diff --quiet; then echo "refusing: /repo has uncommitted changes"; exit 2; fi
for f in selftest/${pat}*.diff seeded/${pat}*/patch.diff; do
  [ -f "$f" ] || continue
  case "$f" in selftest/*) id=$(basename "$f" | cut -d- -f1);; *) id=$(basename "$(dirname "$f")" | cut -d- -f1);; esac
  if ! git -C /repo apply --check "/verif/$f" 2>/dev/null; then echo "SKIP $f (does not apply)"; continue; fi
  git -C /repo apply "/verif/$f"
  out=$(bin/check "$id" quick 2>&1); rc=$?
  git -C /repo checkout -- .
  if [ $rc -eq 1 ] && echo "$out" | grep -q "^VIOLATION property=$id"; then
    echo "CAUGHT $f: $(echo "$out" | grep -m1 '^violation class' | cut -c1-160)"
  else
    echo "MISSED $f rc=$rc"; fail=1
  fi
done
exit $fail
